/-
  C05 — Numeric and register tokens denote exactly their written value.
  For every digit string (any length, leading zeros included) the validators of the lexer accept exactly when the
  written number is in range and then return it; operand conversion accepts exactly the values that fit the field.
  `valOf radix ds` is the number written by `ds` (Lemmas/LexNum.lean).
-/
import Lc3V.Lemmas.LexNum
import Lc3V.Lemmas.LexTok
import Lc3V.Model.Parse
import Lc3V.Props.C35
namespace Lc3V.C05
open Lc3V

/-- unsigned decimal `n` / `#n`: accepted iff the written value ≤ 65535, and denotes it -/
theorem unsigned_dec (ds : List Char) (hne : ds ≠ []) (hd : allDigits 10 ds) :
    lexUnsignedDec ds = (if valOf 10 ds ≤ 65535 then .ok (.unsigned (valOf 10 ds)) else .error .doesNotFitU16) ∧
    lexUnsignedDec ('#' :: ds) = (if valOf 10 ds ≤ 65535 then .ok (.unsigned (valOf 10 ds)) else .error .doesNotFitU16) := by
  obtain ⟨c, cs, rfl⟩ : ∃ c cs, ds = c :: cs := by cases ds with | nil => exact absurd rfl hne | cons c cs => exact ⟨c, cs, rfl⟩
  have hs := digit_not_sign 10 (by omega) c (hd c (by simp))
  have hh : c ≠ '#' := by intro e; subst e; have := hd '#' (by simp); simp [toDigit] at this
  have key : lexUnsignedDec (c :: cs) = (if valOf 10 (c :: cs) ≤ 65535 then .ok (.unsigned (valOf 10 (c :: cs))) else .error .doesNotFitU16) := by
    unfold lexUnsignedDec
    have : stripHash (c :: cs) = c :: cs := by unfold stripHash; split <;> simp_all
    rw [this]; dsimp only
    rw [parseInt_nosign _ _ _ _ _ _ hs.1 hs.2]
    have := parseDigits_pos 10 (by omega) 0 65535 (by omega) (c :: cs) hd 0 (by omega)
    rw [show ((0:Nat):Int) = 0 from rfl] at this
    rw [this]
    unfold valOf
    by_cases h : valFrom 10 (c :: cs) 0 ≤ 65535
    · have h' : ((valFrom 10 (c :: cs) 0 : Nat) : Int) ≤ 65535 := by omega
      simp [h, h']
    · have h' : ¬ ((valFrom 10 (c :: cs) 0 : Nat) : Int) ≤ 65535 := by omega
      simp [h, h', convertIntErr]
  refine ⟨key, ?_⟩
  rw [← key]
  unfold lexUnsignedDec
  have e1 : stripHash ('#' :: c :: cs) = stripHash (c :: cs) := by
    have : stripHash (c :: cs) = c :: cs := by unfold stripHash; split <;> simp_all
    rw [this]; rfl
  rw [e1]

/-- signed decimal `-n` / `#-n`: accepted iff the written magnitude ≤ 32768, and denotes its negation -/
theorem signed_dec (ds : List Char) (hne : ds ≠ []) (hd : allDigits 10 ds) :
    lexSignedDec ('-' :: ds) = (if valOf 10 ds ≤ 32768 then .ok (.signed (-(valOf 10 ds : Int))) else .error .doesNotFitI16) ∧
    lexSignedDec ('#' :: '-' :: ds) = (if valOf 10 ds ≤ 32768 then .ok (.signed (-(valOf 10 ds : Int))) else .error .doesNotFitI16) := by
  obtain ⟨c, cs, rfl⟩ : ∃ c cs, ds = c :: cs := by cases ds with | nil => exact absurd rfl hne | cons c cs => exact ⟨c, cs, rfl⟩
  have key : lexSignedDec ('-' :: c :: cs) = (if valOf 10 (c :: cs) ≤ 32768 then .ok (.signed (-(valOf 10 (c :: cs) : Int))) else .error .doesNotFitI16) := by
    unfold lexSignedDec
    have : stripHash ('-' :: c :: cs) = '-' :: c :: cs := rfl
    rw [this]; dsimp only
    rw [parseInt_minus]
    have := parseDigits_neg 10 (by omega) (-32768) 32767 (by omega) (c :: cs) hd 0 (by omega)
    rw [show ((0:Nat):Int) = 0 from rfl, Int.neg_zero] at this
    rw [this]
    unfold valOf
    by_cases h : valFrom 10 (c :: cs) 0 ≤ 32768
    · have h' : (-32768 : Int) ≤ -((valFrom 10 (c :: cs) 0 : Nat) : Int) := by omega
      simp [h, h']
    · have h' : ¬ (-32768 : Int) ≤ -((valFrom 10 (c :: cs) 0 : Nat) : Int) := by omega
      simp [h, h', convertIntErr]
  exact ⟨key, key⟩

/-- unsigned hex `xH` / `XH`: accepted iff the written value ≤ xFFFF -/
theorem unsigned_hex (x : Char) (ds : List Char) (hne : ds ≠ []) (hd : allDigits 16 ds) :
    lexUnsignedHex (x :: ds) = (if valOf 16 ds ≤ 65535 then .ok (.unsigned (valOf 16 ds)) else .error .doesNotFitU16) := by
  obtain ⟨c, cs, rfl⟩ : ∃ c cs, ds = c :: cs := by cases ds with | nil => exact absurd rfl hne | cons c cs => exact ⟨c, cs, rfl⟩
  have hs := digit_not_sign 16 (by omega) c (hd c (by simp))
  unfold lexUnsignedHex
  simp only [List.drop_succ_cons, List.drop_zero]
  rw [parseInt_nosign _ _ _ _ _ _ hs.1 hs.2]
  have := parseDigits_pos 16 (by omega) 0 65535 (by omega) (c :: cs) hd 0 (by omega)
  rw [show ((0:Nat):Int) = 0 from rfl] at this
  rw [this]
  unfold valOf
  by_cases h : valFrom 16 (c :: cs) 0 ≤ 65535
  · have h' : ((valFrom 16 (c :: cs) 0 : Nat) : Int) ≤ 65535 := by omega
    simp [h, h']
  · have h' : ¬ ((valFrom 16 (c :: cs) 0 : Nat) : Int) ≤ 65535 := by omega
    simp [h, h', convertIntErr]

/-- signed hex `x-H`: accepted iff the written magnitude ≤ x8000 -/
theorem signed_hex (x : Char) (ds : List Char) (hne : ds ≠ []) (hd : allDigits 16 ds) :
    lexSignedHex (x :: '-' :: ds) = (if valOf 16 ds ≤ 32768 then .ok (.signed (-(valOf 16 ds : Int))) else .error .doesNotFitI16) := by
  obtain ⟨c, cs, rfl⟩ : ∃ c cs, ds = c :: cs := by cases ds with | nil => exact absurd rfl hne | cons c cs => exact ⟨c, cs, rfl⟩
  unfold lexSignedHex
  simp only [List.drop_succ_cons, List.drop_zero]
  rw [parseInt_minus]
  have := parseDigits_neg 16 (by omega) (-32768) 32767 (by omega) (c :: cs) hd 0 (by omega)
  rw [show ((0:Nat):Int) = 0 from rfl, Int.neg_zero] at this
  rw [this]
  unfold valOf
  by_cases h : valFrom 16 (c :: cs) 0 ≤ 32768
  · have h' : (-32768 : Int) ≤ -((valFrom 16 (c :: cs) 0 : Nat) : Int) := by omega
    simp [h, h']
  · have h' : ¬ (-32768 : Int) ≤ -((valFrom 16 (c :: cs) 0 : Nat) : Int) := by omega
    simp [h, h', convertIntErr]

/-- `R`/`r` + digits: the register with that number when it is 0–7, rejected otherwise (however long the digits) -/
theorem reg_digits (r : Char) (ds : List Char) (hne : ds ≠ []) (hd : allDigits 10 ds) :
    lexReg (r :: ds) = (if valOf 10 ds < 8 then .ok (.reg (valOf 10 ds)) else .error .invalidReg) := by
  obtain ⟨c, cs, rfl⟩ : ∃ c cs, ds = c :: cs := by cases ds with | nil => exact absurd rfl hne | cons c cs => exact ⟨c, cs, rfl⟩
  have hs := digit_not_sign 10 (by omega) c (hd c (by simp))
  unfold lexReg
  simp only [List.drop_succ_cons, List.drop_zero]
  rw [parseInt_nosign _ _ _ _ _ _ hs.1 hs.2]
  have := parseDigits_pos 10 (by omega) 0 255 (by omega) (c :: cs) hd 0 (by omega)
  rw [show ((0:Nat):Int) = 0 from rfl] at this
  rw [this]
  unfold valOf
  by_cases h : valFrom 10 (c :: cs) 0 ≤ 255
  · have h' : ((valFrom 10 (c :: cs) 0 : Nat) : Int) ≤ 255 := by omega
    simp only [h', if_true]
    by_cases h8 : valFrom 10 (c :: cs) 0 < 8
    · have : ((valFrom 10 (c :: cs) 0 : Nat) : Int) < 8 := by omega
      simp [h8, this]
    · have : ¬ ((valFrom 10 (c :: cs) 0 : Nat) : Int) < 8 := by omega
      simp [h8, this]
  · have h' : ¬ ((valFrom 10 (c :: cs) 0 : Nat) : Int) ≤ 255 := by omega
    have h8 : ¬ valFrom 10 (c :: cs) 0 < 8 := by omega
    simp [h', h8]

/-! ### operands: a value is accepted exactly when it fits the field -/

/-- an unsigned-form token as the operand of a signed N-bit field: accepted iff value < 2^(N-1) -/
theorem signed_field_unsigned_tok (n : Nat) (h1 : 1 ≤ n) (h2 : n ≤ 16) (v : Nat) (hv : v ≤ 65535) (sp : Nat × Nat) :
    (∃ e, convSigned n (.unsigned v) sp = some (.error e)) ↔ ¬ v < 2 ^ (n - 1) := by
  have hiff := C35.new_signed_iff n h1 h2 (BitVec.ofNat 16 v)
  have hpN : 2 ^ (n - 1) ≤ 2 ^ 15 := Nat.pow_le_pow_right (by omega) (by omega)
  have hpn : ((2 ^ (n - 1) : Nat) : Int) = (2:Int) ^ (n - 1) := by push_cast; rfl
  have hp : (2:Int) ^ (n - 1) ≤ 32768 := by rw [← hpn]; omega
  unfold convSigned
  by_cases hbig : v > 32767
  · simp only [hbig, if_true]
    constructor
    · intro _; omega
    · intro _; exact ⟨_, rfl⟩
  · simp only [hbig, if_false]
    have hti : (BitVec.ofNat 16 v).toInt = v := by
      rw [BitVec.toInt_eq_toNat_cond]; simp only [BitVec.toNat_ofNat]
      rw [Nat.mod_eq_of_lt (by omega)]; split <;> omega
    rw [hti] at hiff
    cases hn : newS n (BitVec.ofNat 16 v) with
    | ok o =>
      rw [hn] at hiff
      have := hiff.mp rfl
      constructor
      · rintro ⟨e, he⟩; simp at he
      · intro h; exfalso; omega
    | err e =>
      rw [hn] at hiff
      constructor
      · intro _ hlt; have := hiff.mpr ⟨by omega, by omega⟩; simp [Outcome.isOk] at this
      · intro _; exact ⟨_, rfl⟩
    | panic m =>
      rw [hn] at hiff
      constructor
      · intro _ hlt; have := hiff.mpr ⟨by omega, by omega⟩; simp [Outcome.isOk] at this
      · intro _; exact ⟨_, rfl⟩


/-- the same, stated positively: accepted with the written value iff it is below 2^(N-1) -/
theorem signed_field_unsigned_tok_ok (n : Nat) (h1 : 1 ≤ n) (h2 : n ≤ 16) (v : Nat) (hv : v ≤ 65535) (sp : Nat × Nat) :
    convSigned n (.unsigned v) sp = some (.ok (BitVec.ofNat n v)) ↔ v < 2 ^ (n - 1) := by
  have h := signed_field_unsigned_tok n h1 h2 v hv sp
  constructor
  · intro hok
    apply Classical.not_not.mp
    intro hn
    obtain ⟨e, he⟩ := h.mpr hn
    rw [he] at hok; simp at hok
  · intro hlt
    have hne : ¬ ∃ e, convSigned n (.unsigned v) sp = some (.error e) := fun hx => h.mp hx hlt
    unfold convSigned at hne ⊢
    by_cases hbig : v > 32767
    · simp only [hbig, if_true] at hne; exact absurd ⟨_, rfl⟩ hne
    · simp only [hbig, if_false] at hne ⊢
      cases hn : newS n (BitVec.ofNat 16 v) with
      | ok o => rfl
      | err e => rw [hn] at hne; exact absurd ⟨_, rfl⟩ hne
      | panic m => rw [hn] at hne; exact absurd ⟨_, rfl⟩ hne

theorem toInt_ofInt16 (v : Int) (h1 : -32768 ≤ v) (h2 : v ≤ 32767) : (BitVec.ofInt 16 v).toInt = v := by
  rw [BitVec.toInt_ofInt]
  simp [Int.bmod]; omega

/-- a signed-form token as the operand of a signed N-bit field: accepted iff -2^(N-1) ≤ value < 2^(N-1) -/
theorem signed_field_signed_tok_ok (n : Nat) (h1 : 1 ≤ n) (h2 : n ≤ 16) (v : Int) (hlo : -32768 ≤ v) (hhi : v ≤ 32767)
    (sp : Nat × Nat) :
    convSigned n (.signed v) sp = some (.ok (BitVec.ofInt n v)) ↔ (-(2 ^ (n - 1) : Int) ≤ v ∧ v < 2 ^ (n - 1)) := by
  have hiff := C35.new_signed_iff n h1 h2 (BitVec.ofInt 16 v)
  rw [toInt_ofInt16 v hlo hhi] at hiff
  unfold convSigned
  cases hn : newS n (BitVec.ofInt 16 v) with
  | ok o => rw [hn] at hiff; simp only [hn, true_iff]; exact hiff.mp rfl
  | err e => rw [hn] at hiff; constructor
             · intro h; simp [hn] at h
             · intro h; have := hiff.mpr h; simp [Outcome.isOk] at this
  | panic m => rw [hn] at hiff; constructor
               · intro h; simp [hn] at h
               · intro h; have := hiff.mpr h; simp [Outcome.isOk] at this

/-- an unsigned-form token as the operand of an unsigned N-bit field (trap vector, .orig, .blkw): iff value < 2^N -/
theorem unsigned_field_unsigned_tok_ok (n : Nat) (h1 : 1 ≤ n) (h2 : n ≤ 16) (v : Nat) (hv : v ≤ 65535) (sp : Nat × Nat) :
    convUnsigned n (.unsigned v) sp = some (.ok (BitVec.ofNat n v)) ↔ v < 2 ^ n := by
  have hiff := C35.new_unsigned_iff n h1 h2 (BitVec.ofNat 16 v)
  have : (BitVec.ofNat 16 v).toNat = v := by simp only [BitVec.toNat_ofNat]; exact Nat.mod_eq_of_lt (by omega)
  rw [this] at hiff
  unfold convUnsigned
  cases hn : newU n (BitVec.ofNat 16 v) with
  | ok o => rw [hn] at hiff; simp only [hn, true_iff]; exact hiff.mp rfl
  | err e => rw [hn] at hiff; constructor
             · intro h; simp [hn] at h
             · intro h; have := hiff.mpr h; simp [Outcome.isOk] at this
  | panic m => rw [hn] at hiff; constructor
               · intro h; simp [hn] at h
               · intro h; have := hiff.mpr h; simp [Outcome.isOk] at this

/-- a signed-form token as the operand of an unsigned field: accepted iff 0 ≤ value < 2^N (so only "-0") -/
theorem unsigned_field_signed_tok_ok (n : Nat) (h1 : 1 ≤ n) (h2 : n ≤ 16) (v : Int) (hlo : -32768 ≤ v) (hhi : v ≤ 32767)
    (sp : Nat × Nat) :
    convUnsigned n (.signed v) sp = some (.ok (BitVec.ofInt n v)) ↔ (0 ≤ v ∧ v < 2 ^ n) := by
  unfold convUnsigned
  by_cases hneg : v < 0
  · simp only [hneg, if_true]; constructor
    · intro h; simp at h
    · intro h; omega
  · simp only [hneg, if_false]
    have hiff := C35.new_unsigned_iff n h1 h2 (BitVec.ofInt 16 v)
    have hnat : ((BitVec.ofInt 16 v).toNat : Int) = v := by
      have := toInt_ofInt16 v hlo hhi
      rw [BitVec.toInt_eq_toNat_cond] at this
      have hl := (BitVec.ofInt 16 v).isLt
      split at this <;> omega
    have hpn : ((2 ^ n : Nat) : Int) = (2:Int) ^ n := by push_cast; rfl
    cases hn : newU n (BitVec.ofInt 16 v) with
    | ok o => rw [hn] at hiff; simp only [hn, true_iff]; have := hiff.mp rfl; omega
    | err e => rw [hn] at hiff; constructor
               · intro h; simp [hn] at h
               · intro h; have := hiff.mpr (by omega); simp [Outcome.isOk] at this
    | panic m => rw [hn] at hiff; constructor
                 · intro h; simp [hn] at h
                 · intro h; have := hiff.mpr (by omega); simp [Outcome.isOk] at this

/-- the field widths the parser uses never reach the `Offset::new` panics -/
theorem conv_no_panic (n : Nat) (h1 : 1 ≤ n) (h2 : n ≤ 16) (v : W) :
    (∀ m, newS n v ≠ .panic m) ∧ (∀ m, newU n v ≠ .panic m) := by
  have a : ¬ n > 16 := by omega
  have b : ¬ n = 0 := by omega
  unfold newS newU
  simp only [a, b, if_false]
  constructor <;> intro m <;> split <;> simp


/-! ### from the validators to the token stream -/

/-- a decimal literal standing alone (followed by a non-word character or the end of the text) is one token: the written
    value when it is at most 65535, else the `DoesNotFitU16` error; the token covers exactly the digits -/
theorem token_unsigned_dec (ds rest : List Char) (hne : ds ≠ []) (hd : ∀ c ∈ ds, IsDec c) (hr : EndsWord rest) :
    lexOne (ds ++ rest) =
      ⟨if valOf 10 ds ≤ 65535 then .ok (.unsigned (valOf 10 ds)) else .error .doesNotFitU16, ds.length⟩ := by
  obtain ⟨c, cs, rfl⟩ : ∃ c cs, ds = c :: cs := by cases ds with | nil => exact absurd rfl hne | cons c cs => exact ⟨c, cs, rfl⟩
  have hall : allDigits 10 (c :: cs) := fun x hx => IsDec.digit10 (hd x hx)
  rw [List.cons_append, lexOne_dec c cs rest (hd c (by simp)) (fun x hx => IsDec.word (hd x (by simp [hx]))) hr,
    (unsigned_dec (c :: cs) hne hall).1]
  simp only [List.length_cons]; congr 1; omega

/-- `-digits` standing alone: minus the written value when the magnitude is at most 32768, else `DoesNotFitI16` -/
theorem token_signed_dec (ds rest : List Char) (hne : ds ≠ []) (hd : ∀ c ∈ ds, IsDec c) (hr : EndsWord rest) :
    lexOne ('-' :: (ds ++ rest)) =
      ⟨if valOf 10 ds ≤ 32768 then .ok (.signed (-(valOf 10 ds : Int))) else .error .doesNotFitI16, 1 + ds.length⟩ := by
  obtain ⟨c, cs, rfl⟩ : ∃ c cs, ds = c :: cs := by cases ds with | nil => exact absurd rfl hne | cons c cs => exact ⟨c, cs, rfl⟩
  have hall : allDigits 10 (c :: cs) := fun x hx => IsDec.digit10 (hd x hx)
  rw [List.cons_append, lexOne_minus c cs rest (IsDec.word (hd c (by simp))) (fun x hx => IsDec.word (hd x (by simp [hx]))) hr,
    (signed_dec (c :: cs) hne hall).1]
  simp only [List.length_cons]; congr 1; omega

/-- `R`/`r` + digits standing alone: register 0–7 or the `InvalidReg` error -/
theorem token_reg (r : Char) (ds rest : List Char) (hx : r = 'R' ∨ r = 'r') (hne : ds ≠ []) (hd : ∀ c ∈ ds, IsDec c)
    (hr : EndsWord rest) :
    lexOne (r :: (ds ++ rest)) =
      ⟨if valOf 10 ds < 8 then .ok (.reg (valOf 10 ds)) else .error .invalidReg, 1 + ds.length⟩ := by
  have hall : allDigits 10 ds := fun x hx => IsDec.digit10 (hd x hx)
  rw [lexOne_reg r ds rest hx hne (fun c hc => IsDec.isDigitC (hd c hc)) (fun c hc => IsDec.word (hd c hc)) hr, reg_digits r ds hne hall]

def obligations : List Lean.Name :=
  [``unsigned_dec, ``signed_dec, ``unsigned_hex, ``signed_hex, ``reg_digits, ``signed_field_unsigned_tok,
   ``signed_field_unsigned_tok_ok, ``signed_field_signed_tok_ok, ``unsigned_field_unsigned_tok_ok, ``unsigned_field_signed_tok_ok,
   ``conv_no_panic, ``token_unsigned_dec, ``token_signed_dec, ``token_reg]

end Lc3V.C05
