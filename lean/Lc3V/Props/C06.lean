/-
  C06 — Instruction decoding is the exact inverse of encoding.
  `specValid` (Lemmas/DecCheck.lean) is the canonical-encoding predicate written from the ISA format table,
  independently of `decode`.  The universally quantified statements below are lifted from complete
  kernel-evaluated tables (all 65536 words; all representable instructions) — a proof, not a sample.
-/
import Lc3V.Lemmas.DecAll
namespace Lc3V.C06
open Lc3V SimInstr

/-- Re-encoding every decoded instruction gives back the same word. -/
theorem decode_encode (w : W) (i : SimInstr) (h : decode w = .ok i) : encode i = w := by
  have := decChk_all w
  unfold decChk at this
  rw [h] at this
  simp only [Bool.and_eq_true, beq_iff_eq] at this
  exact this.2

/-- Decoding succeeds exactly on the canonical LC-3 encodings. -/
theorem decode_ok_iff_canonical (w : W) : (∃ i, decode w = .ok i) ↔ specValid w = true := by
  have := decChk_all w
  unfold decChk at this
  constructor
  · rintro ⟨i, hi⟩
    rw [hi] at this
    simp only [Bool.and_eq_true] at this
    exact this.1
  · intro hv
    cases hd : decode w with
    | ok i => exact ⟨i, rfl⟩
    | error e =>
      rw [hd] at this
      cases e
      · simp only [beq_iff_eq] at this
        simp [specValid, this] at hv
      · simp only [Bool.and_eq_true, Bool.not_eq_eq_eq_not, Bool.not_true] at this
        rw [this.2] at hv; cases hv

/-- The reserved opcode is reported as an illegal opcode, and only it. -/
theorem decode_illegal_iff (w : W) : decode w = .error .illegalOpcode ↔ bitsOf w 12 4 = 13 := by
  have := decChk_all w
  unfold decChk at this
  cases hd : decode w with
  | ok i =>
    rw [hd] at this
    simp only [Bool.and_eq_true] at this
    constructor
    · intro h; cases h
    · intro h13
      have hv := this.1
      simp [specValid, h13] at hv
  | error e =>
    rw [hd] at this
    cases e <;> simp_all

/-- Non-zero must-be-zero bits or a wrong NOT suffix are reported as an invalid format. -/
theorem decode_invalid_format_iff (w : W) :
    decode w = .error .invalidInstrFormat ↔ (bitsOf w 12 4 ≠ 13 ∧ specValid w = false) := by
  have := decChk_all w
  unfold decChk at this
  cases hd : decode w with
  | ok i =>
    rw [hd] at this
    simp only [Bool.and_eq_true] at this
    constructor
    · intro h; cases h
    · intro ⟨_, hv⟩; rw [this.1] at hv; cases hv
  | error e =>
    rw [hd] at this
    cases e
    · simp only [beq_iff_eq] at this
      constructor
      · intro h; cases h
      · intro ⟨h, _⟩; exact absurd this h
    · simp only [Bool.and_eq_true, bne_iff_ne, ne_eq, Bool.not_eq_eq_eq_not, Bool.not_true] at this
      simp [this]

/-- Encoding any representable instruction then decoding gives back the same instruction. -/
theorem encode_decode (i : SimInstr) : decode (encode i) = .ok i := by
  have := encChk_all i
  unfold encChk at this
  simp only [Bool.and_eq_true] at this
  cases hd : decode (encode i) with
  | ok j => rw [hd] at this; simp only [beq_iff_eq] at this; rw [this.1]
  | error e => rw [hd] at this; simp at this

/-- Decoding yields an instruction exactly when the word is in the range of `encode`. -/
theorem decode_ok_iff_in_range (w : W) : (∃ i, decode w = .ok i) ↔ ∃ i, encode i = w := by
  constructor
  · rintro ⟨i, hi⟩; exact ⟨i, decode_encode w i hi⟩
  · rintro ⟨i, hi⟩; exact ⟨i, by rw [← hi]; exact encode_decode i⟩

/-- `encode` is injective on representable instructions (consequence of the round trip). -/
theorem encode_injective (i j : SimInstr) (h : encode i = encode j) : i = j := by
  have hi := encode_decode i
  rw [h, encode_decode j] at hi
  cases hi; rfl

-- Non-vacuity / sanity: concrete words, including the ones of defect F3 (JMP with bit 11 set).
example : decode 0xC1C0 = .ok (.jmp 7) := by rfl
example : decode 0xC9C0 = .error .invalidInstrFormat := by rfl
example : decode 0xD000 = .error .illegalOpcode := by rfl
example : specValid 0xC9C0 = false ∧ specValid 0x1021 = true := by decide

def obligations : List Lean.Name :=
  [``decode_encode, ``decode_ok_iff_canonical, ``decode_illegal_iff, ``decode_invalid_format_iff,
   ``encode_decode, ``decode_ok_iff_in_range, ``encode_injective]

end Lc3V.C06
