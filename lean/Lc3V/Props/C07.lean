/-
  C07 — Every word disassembles to text that reassembles to the same word.   (statement level proved; text level via C36)
  Proved for all 65536 words, every address and every symbol table: the statement `disassemble_line` returns is turned by
  the second assembler pass into exactly that word (a `.fill` for words below x0200 and non-instructions, else the
  instruction, aliases by name).  The decode/encode inverse is the kernel-checked table of C06.  The remaining step —
  the statement's printed text parses back to the statement — is C36's (operand-level theorems + correspondence); the
  check runs the whole chain (disassemble, print, parse, assemble at several origins) on all 65536 words.
-/
import Lc3V.Model.Asm
import Lc3V.Model.Print
import Lc3V.Props.C06
namespace Lc3V.C07
open Lc3V SimInstr

/-- printing names undo alias expansion: the assembler maps the printed instruction back to the decoded one -/
theorem toAsm_intoSim (si : SimInstr) (pc : W) (t : SymTab) : intoSimInstr si.toAsm pc t = .ok si := by
  cases si with
  | jmp b =>
    by_cases h : b = 7
    · subst h; rfl
    · have : SimInstr.toAsm (.jmp b) = .jmp b := by simp only [SimInstr.toAsm]; rw [if_neg h]
      rw [this]; rfl
  | trap v =>
    by_cases h0 : v = 0x20; · subst h0; rfl
    by_cases h1 : v = 0x21; · subst h1; rfl
    by_cases h2 : v = 0x22; · subst h2; rfl
    by_cases h3 : v = 0x23; · subst h3; rfl
    by_cases h4 : v = 0x24; · subst h4; rfl
    by_cases h5 : v = 0x25; · subst h5; rfl
    have : SimInstr.toAsm (.trap v) = .trap v := by
      simp only [SimInstr.toAsm]; rw [if_neg h0, if_neg h1, if_neg h2, if_neg h3, if_neg h4, if_neg h5]
    rw [this]; rfl
  | jsr o => cases o <;> simp [SimInstr.toAsm, intoSimInstr, replacePcOffset] <;> rfl
  | _ => simp [SimInstr.toAsm, intoSimInstr, replacePcOffset] <;> rfl

/-- what the second pass emits for a statement kind at location `lc` -/
def emitted (k : StmtKind) (lc : W) (t : SymTab) : ARes (List (Option W)) :=
  match k with
  | .instr i => (intoSimInstr i (lc + 1) t).map (fun si => [some si.encode])
  | .directive d => directiveWords d t

/-- every word comes back: assembling the disassembled statement anywhere gives exactly that word -/
theorem disassemble_reassembles (w lc : W) (t : SymTab) : emitted (disassembleKind w) lc t = .ok [some w] := by
  unfold disassembleKind
  dsimp only
  split
  · rfl
  · split
    · rfl
    · rename_i si h
      simp only [emitted, toAsm_intoSim, Except.map]
      rw [C06.decode_encode w si h]

/-- words below x0200 and words that are not instructions come back as `.fill` -/
theorem low_and_invalid_are_fill (w : W) (h : w.toNat < 0x200 ∨ ∀ i, SimInstr.decode w ≠ .ok i) :
    disassembleKind w = .directive (.fill (.off w)) := by
  unfold disassembleKind
  dsimp only
  rcases h with h | h
  · rw [if_pos h]
  · split
    · rfl
    · split
      · rfl
      · rename_i si hs; exact absurd hs (h si)

/-- `emitted` is what `pass2Step` appends (instruction case), so the theorem above is about the assembler itself -/
theorem pass2_instr_appends (t : SymTab) (st : P2) (stmt : Stmt) (i : AsmInstr) (lc : W) (b : ObjBlock) (si : SimInstr)
    (hn : stmt.nucleus = .instr i) (hc : st.current = some (lc, b)) (hi : intoSimInstr i (lc + 1) t = .ok si) :
    pass2Step t st stmt = .ok { st with current := some (lc + 1, { b with words := b.words ++ [some si.encode] }) } := by
  unfold pass2Step
  rw [hn]
  simp only [hc, hi]

/-- the alias words are printed by name -/
example : disassembleKind 0xC1C0 = .instr .ret ∧ disassembleKind 0xF025 = .instr .halt ∧ disassembleKind 0xF020 = .instr .getc := by
  refine ⟨by decide, by decide, by decide⟩

def obligations : List Lean.Name :=
  [``toAsm_intoSim, ``disassemble_reassembles, ``low_and_invalid_are_fill, ``pass2_instr_appends]

end Lc3V.C07
