/-
  C07 — Every word disassembles to text that reassembles to the same word.
  Proved for the model, for all 65536 words: the statement `disassemble_line` returns satisfies `StmtOk`, so by C36's
  `parse_print` its printed text parses back to exactly that statement (`text_roundtrip`); the second assembler pass
  turns that statement, at any address and with any symbol table, into exactly the word (`disassemble_reassembles`;
  decode/encode inverse = the kernel-checked table of C06; alias names undo alias expansion).  Words below x0200 and
  words that are not instructions come back as `.fill`.
  The check additionally runs the whole chain on the implementation for all 65536 words (disassemble, print, parse,
  assemble inside .orig/.end at several origins) and compares every step with the model.
-/
import Lc3V.Model.Asm
import Lc3V.Model.Print
import Lc3V.Props.C06
import Lc3V.Lemmas.PrintParse
namespace Lc3V.C07
open Lc3V SimInstr

/-- printing names undo alias expansion: the assembler maps the printed instruction back to the decoded one -/
theorem toAsm_intoSim (si : SimInstr) (pc : W) (t : SymTab) : intoSimInstr si.toAsm pc t = .ok si := by
  cases si with
  | jmp b =>
    by_cases h : b = 7
    · subst h; rfl
    · have : SimInstr.toAsm (.jmp b) = .jmp b := by simp only [SimInstr.toAsm]; rw [if_neg h]
      rw [this]; rfl
  | trap v =>
    by_cases h0 : v = 0x20; · subst h0; rfl
    by_cases h1 : v = 0x21; · subst h1; rfl
    by_cases h2 : v = 0x22; · subst h2; rfl
    by_cases h3 : v = 0x23; · subst h3; rfl
    by_cases h4 : v = 0x24; · subst h4; rfl
    by_cases h5 : v = 0x25; · subst h5; rfl
    have : SimInstr.toAsm (.trap v) = .trap v := by
      simp only [SimInstr.toAsm]; rw [if_neg h0, if_neg h1, if_neg h2, if_neg h3, if_neg h4, if_neg h5]
    rw [this]; rfl
  | jsr o => cases o <;> simp [SimInstr.toAsm, intoSimInstr, replacePcOffset] <;> rfl
  | _ => simp [SimInstr.toAsm, intoSimInstr, replacePcOffset] <;> rfl

theorem br0_small : ∀ off : BitVec 9, (decide ((SimInstr.encode (.br 0 off)).toNat < 512)) = true :=
  forall_bitvec_of_table (p := fun off => decide ((SimInstr.encode (.br 0 off)).toNat < 512)) (by decide +kernel)

/-- a word at or above x0200 never decodes to a branch with an empty condition code -/
theorem br_cc_ne_zero (w : W) (hw : 0x200 ≤ w.toNat) (cc : BitVec 3) (off : BitVec 9) (h : SimInstr.decode w = .ok (.br cc off)) :
    cc ≠ 0 := by
  intro e
  subst e
  have he := C06.decode_encode w _ h
  have := br0_small off
  simp only [decide_eq_true_eq] at this
  rw [he] at this
  omega

/-- the disassembled statement is one the parser can produce -/
theorem disassembled_stmtOk (w : W) : StmtOk (disassembleLine w) := by
  refine ⟨(by intro l hl; cases hl), ?_⟩
  show kindOk (disassembleKind w)
  unfold disassembleKind
  dsimp only
  split
  · exact ⟨trivial, (by intro n h; cases h)⟩
  · rename_i hge
    split
    · exact ⟨trivial, (by intro n h; cases h)⟩
    · rename_i si hsi
      show instrOk si.toAsm
      cases si with
      | br cc off => exact ⟨br_cc_ne_zero w (by omega) cc off hsi, trivial⟩
      | jsr o => cases o <;> trivial
      | jmp b => simp only [SimInstr.toAsm]; split <;> trivial
      | trap v => simp only [SimInstr.toAsm]; repeat' split
                  all_goals trivial
      | _ => trivial

/-- erasing label positions changes nothing in a statement without label operands -/
theorem erase_toAsm (si : SimInstr) : si.toAsm.erase = si.toAsm := by
  cases si with
  | jsr o => cases o <;> rfl
  | jmp b => simp only [SimInstr.toAsm]; split <;> rfl
  | trap v => simp only [SimInstr.toAsm]; repeat' split
              all_goals rfl
  | _ => rfl

/-- **text level**: the printed disassembly of every word parses back to the disassembled statement -/
theorem text_roundtrip (w : W) :
    ∃ s', parseAst (showStmt (disassembleLine w)) = .ok [s'] ∧ s'.labels = [] ∧ s'.nucleus.erase = (disassembleKind w).erase := by
  obtain ⟨s', h1, h2, h3⟩ := parse_print (disassembleLine w) (disassembled_stmtOk w)
  refine ⟨s', h1, ?_, h3⟩
  have : s'.labels.map (·.name) = [] := h2
  exact List.map_eq_nil_iff.mp this

/-- what the second pass emits for a statement kind at location `lc` -/
def emitted (k : StmtKind) (lc : W) (t : SymTab) : ARes (List (Option W)) :=
  match k with
  | .instr i => (intoSimInstr i (lc + 1) t).map (fun si => [some si.encode])
  | .directive d => directiveWords d t

/-- every word comes back: assembling the disassembled statement anywhere gives exactly that word -/
theorem disassemble_reassembles (w lc : W) (t : SymTab) : emitted (disassembleKind w) lc t = .ok [some w] := by
  unfold disassembleKind
  dsimp only
  split
  · rfl
  · split
    · rfl
    · rename_i si h
      simp only [emitted, toAsm_intoSim, Except.map]
      rw [C06.decode_encode w si h]

/-- words below x0200 and words that are not instructions come back as `.fill` -/
theorem low_and_invalid_are_fill (w : W) (h : w.toNat < 0x200 ∨ ∀ i, SimInstr.decode w ≠ .ok i) :
    disassembleKind w = .directive (.fill (.off w)) := by
  unfold disassembleKind
  dsimp only
  rcases h with h | h
  · rw [if_pos h]
  · split
    · rfl
    · split
      · rfl
      · rename_i si hs; exact absurd hs (h si)

/-- `emitted` is what `pass2Step` appends (instruction case), so the theorem above is about the assembler itself -/
theorem pass2_instr_appends (t : SymTab) (st : P2) (stmt : Stmt) (i : AsmInstr) (lc : W) (b : ObjBlock) (si : SimInstr)
    (hn : stmt.nucleus = .instr i) (hc : st.current = some (lc, b)) (hi : intoSimInstr i (lc + 1) t = .ok si) :
    pass2Step t st stmt = .ok { st with current := some (lc + 1, { b with words := b.words ++ [some si.encode] }) } := by
  unfold pass2Step
  rw [hn]
  simp only [hc, hi]

/-- the alias words are printed by name -/
example : disassembleKind 0xC1C0 = .instr .ret ∧ disassembleKind 0xF025 = .instr .halt ∧ disassembleKind 0xF020 = .instr .getc := by
  refine ⟨by decide, by decide, by decide⟩

def obligations : List Lean.Name :=
  [``toAsm_intoSim, ``disassemble_reassembles, ``low_and_invalid_are_fill, ``pass2_instr_appends, ``br_cc_ne_zero, ``disassembled_stmtOk,
   ``erase_toAsm, ``text_roundtrip]

end Lc3V.C07
