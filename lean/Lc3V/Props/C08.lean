/-
  C08 — Each simulator step follows the LC-3 ISA (non-strict mode; strict mode is C14's subject).

  The "ISA card" as theorems about the model's step.  `stepInner_fetch` (Lemmas/Step.lean) reduces a step in
  which no interrupt is taken and the fetch succeeds to the execute stage on `execState s2` (PC already
  incremented); the theorems below state, for every state, what each instruction's execute stage does, what
  interrupt entry does, and what the exception paths do under virtual and real traps.
  Deviations of the library from Patt & Patel that are part of the specification (DESIGN §3): TRAP does not
  write R7 (it pushes PSR/PC like an interrupt); JSRR Rn reads Rn before linking; PSR written through MMIO keeps
  only bits 15,10-8,2-0 and an invalid CC is coerced to Z.
-/
import Lc3V.Lemmas.Step
import Lc3V.Lemmas.BitTac
namespace Lc3V.C08
open Lc3V Sim SimM

/-- every step is: poll; if a vectored interrupt beats the PSR priority take it, if an external interrupt won
    report it, otherwise fetch/execute (structure of the step; "interrupts only at instruction boundaries"). -/
theorem step_structure (s : Sim) :
    stepInner s =
      match externalInterrupt s, takenInterrupt s with
      | some t, _ => (.error (.err (.interrupt t)), afterPoll s)
      | none, some (v, p) => handleInterrupt (0x100 + v.setWidth 16) (some p) (afterPoll s)
      | none, none => fetchExec (afterPoll s) := by
  unfold stepInner externalInterrupt takenInterrupt
  cases (s.dev.pollInterrupt).1 with
  | none => rfl
  | some i =>
    cases i with
    | external t => rfl
    | vectored v p =>
      by_cases hgt : p > PSR.priority s.psr
      · have : p > PSR.priority (afterPoll s).psr := hgt
        simp [hgt, this]
      · have : ¬ p > PSR.priority (afterPoll s).psr := hgt
        simp [hgt, this]

/-! ### operate instructions -/

theorem exec_add (s : Sim) (dr sr1 : Reg) (op2 : ImmOrReg 5) (hs : s.flags.strict = false) :
    execInstr (.add dr sr1 op2) s =
      (.ok (), ((s.setReg dr (Word.add (s.reg sr1) (s.operand2 op2))).setCCOf
                  (Word.add (s.reg sr1) (s.operand2 op2)).data)) := by
  simp [execInstr, setRegIfInit, hs]

theorem exec_and (s : Sim) (dr sr1 : Reg) (op2 : ImmOrReg 5) (hs : s.flags.strict = false) :
    execInstr (.and dr sr1 op2) s =
      (.ok (), ((s.setReg dr (Word.and (s.reg sr1) (s.operand2 op2))).setCCOf
                  (Word.and (s.reg sr1) (s.operand2 op2)).data)) := by
  simp [execInstr, setRegIfInit, hs]

theorem exec_not (s : Sim) (dr sr : Reg) (hs : s.flags.strict = false) :
    execInstr (.not dr sr) s =
      (.ok (), ((s.setReg dr (Word.not (s.reg sr))).setCCOf (Word.not (s.reg sr)).data)) := by
  simp [execInstr, setRegIfInit, hs]

/-- the data path of ADD/AND/NOT is the wrapping 16-bit operation; immediates are sign-extended -/
theorem operate_data (a b : Word) (v : BitVec 5) (s : Sim) :
    (b.data ≠ 0 ∨ b.init ≠ Word.ALL → a.data ≠ 0 ∨ a.init ≠ Word.ALL → (Word.add a b).data = a.data + b.data) ∧
    (Word.and a b).data = a.data &&& b.data ∧ (Word.not a).data = ~~~a.data ∧
    (s.operand2 (.imm v)).data = v.signExtend 16 := by
  refine ⟨?_, rfl, rfl, rfl⟩
  intro hb ha
  unfold Word.add
  have hb' : ¬ (b.data = 0#16 ∧ b.init = Word.ALL) := by intro ⟨h1, h2⟩; rcases hb with h | h <;> simp_all
  have ha' : ¬ (a.data = 0#16 ∧ a.init = Word.ALL) := by intro ⟨h1, h2⟩; rcases ha with h | h <;> simp_all
  simp [hb', ha']

/-- `a + 0 = a` and `0 + b = b` shortcuts agree with wrapping addition on the data -/
theorem add_data (a b : Word) : (Word.add a b).data = a.data + b.data := by
  unfold Word.add
  split
  · rename_i h; simp only [Bool.and_eq_true, beq_iff_eq] at h; simp [h.1]
  · split
    · rename_i h; simp only [Bool.and_eq_true, beq_iff_eq] at h; simp [h.1]
    · rfl

/-- condition codes: exactly N, Z or P according to the sign of the result -/
theorem setCC_spec (s : Sim) (r : W) :
    PSR.cc (s.setCCOf r).psr = (if r.msb then 4 else if r = 0 then 2 else 1) ∧
    (s.setCCOf r).psr &&& 0xFFF8 = s.psr &&& 0xFFF8 := by
  unfold Sim.setCCOf PSR.setCC PSR.cc
  constructor
  · split
    · simp only; bits16
    · split <;> (simp only; bits16)
  · split
    · simp only; bits16
    · split <;> (simp only; bits16)

theorem exec_lea (s : Sim) (dr : Reg) (off : BitVec 9) :
    execInstr (.lea dr off) s = (.ok (), s.setReg dr (Word.ofData (s.pc + off.signExtend 16))) := by
  simp [execInstr, Word.set, Word.ofData, IOff.get]

/-! ### control instructions -/

theorem exec_br (s : Sim) (cc : BitVec 3) (off : BitVec 9) (hs : s.flags.strict = false) :
    execInstr (.br cc off) s =
      (.ok (), if (cc.setWidth 16 &&& PSR.cc s.psr) ≠ 0 then { s with pc := s.pc + off.signExtend 16 } else s) := by
  simp only [execInstr, SimM.bind_apply, SimM.getS_apply]
  split
  · simp [offsetPc, setPc, hs, IOff.get]
  · rfl

theorem exec_jmp (s : Sim) (b : Reg) (hs : s.flags.strict = false) :
    execInstr (.jmp b) s =
      (.ok (), if b = R7 then popFrame { s with pc := (s.reg b).data } else { s with pc := (s.reg b).data }) := by
  simp only [execInstr, SimM.bind_apply, SimM.getS_apply]
  simp [setPc, hs]
  split <;> rfl

/-- JSR/JSRR: R7 := incremented PC, PC := target (JSRR reads the base register before linking), one frame pushed -/
theorem exec_jsr (s : Sim) (op : ImmOrReg 11) (hs : s.flags.strict = false) :
    execInstr (.jsr op) s =
      let target := match op with
        | .imm off => s.pc + off.signExtend 16
        | .reg b => (s.reg b).data
      let s1 := s.setReg R7 (Word.ofData s.pc)
      (.ok (), { (s1.pushFrame s1.prefetchPc target .subroutine) with pc := target }) := by
  cases op <;> simp [execInstr, callSubroutine, setPc, hs, Word.set, Word.ofData, IOff.get]

/-- RTI in user mode (privilege checks on) is a privilege violation and changes nothing -/
theorem exec_rti_user (s : Sim) (hu : PSR.privileged s.psr = false) (hi : s.flags.ignorePriv = false) :
    execInstr .rti s = (.error (.err .privilegeViolation), s) := by
  simp [execInstr, hu, hi]

/-! ### memory: what a load/store access does (non-I/O addresses) -/

/-- an access outside user space with user privilege is an access violation and touches nothing but the ghost log -/
theorem readMem_violation (s : Sim) (a : W) (c : Ctx) (hp : c.privileged = false) (hu : inUser a = false) :
    ∃ s', readMem a c s = (.error (.err .accessViolation), s') ∧ s'.mem = s.mem ∧ s'.regs = s.regs ∧
      s'.dev = s.dev ∧ s'.pc = s.pc ∧ s'.psr = s.psr ∧ s'.observer = s.observer ∧ s'.prefetch = s.prefetch := by
  refine ⟨{ s with log := ⟨a, false, c.privileged, false⟩ :: s.log }, ?_, rfl, rfl, rfl, rfl, rfl, rfl, rfl⟩
  unfold readMem; simp [hp, hu]

theorem writeMem_violation (s : Sim) (a : W) (w : Word) (c : Ctx) (hp : c.privileged = false) (hu : inUser a = false) :
    ∃ s', writeMem a w c s = (.error (.err .accessViolation), s') ∧ s'.mem = s.mem ∧ s'.regs = s.regs ∧
      s'.dev = s.dev ∧ s'.pc = s.pc ∧ s'.psr = s.psr ∧ s'.observer = s.observer ∧ s'.prefetch = s.prefetch := by
  refine ⟨{ s with log := ⟨a, true, c.privileged, false⟩ :: s.log }, ?_, rfl, rfl, rfl, rfl, rfl, rfl, rfl⟩
  unfold writeMem; simp [hp, hu]

/-- a permitted read below the I/O page returns the memory word, leaves memory/registers/devices unchanged -/
theorem readMem_plain (s : Sim) (a : W) (c : Ctx) (hp : c.privileged = true ∨ inUser a = true)
    (hio : a.toNat < IO_START) :
    ∃ s', readMem a c s = (.ok (s.memAt a), s') ∧ s'.mem = s.mem ∧ s'.regs = s.regs ∧ s'.dev = s.dev ∧
      s'.pc = s.pc ∧ s'.psr = s.psr := by
  have hg : (!c.privileged && !inUser a) = false := by rcases hp with h | h <;> simp [h]
  have hio' : ¬ IO_START ≤ a.toNat := by omega
  unfold readMem
  simp only [hg, hio']
  by_cases ht : c.track <;> simp [ht, memAt]

/-- a permitted non-strict write below the I/O page stores the word there and nowhere else -/
theorem writeMem_plain (s : Sim) (a : W) (w : Word) (c : Ctx) (hp : c.privileged = true ∨ inUser a = true)
    (hio : a.toNat < IO_START) (hs : c.strict = false) :
    ∃ s', writeMem a w c s = (.ok (), s') ∧ s'.mem = s.mem.set a.toNat w a.isLt ∧ s'.regs = s.regs ∧
      s'.dev = s.dev ∧ s'.pc = s.pc ∧ s'.psr = s.psr := by
  have hg : (!c.privileged && !inUser a) = false := by rcases hp with h | h <;> simp [h]
  have hio' : ¬ IO_START ≤ a.toNat := by omega
  unfold writeMem
  simp only [hg, ioWritePart, hio', storePart]
  by_cases ht : c.track <;> simp [ht, hs, setMem]

/-- LD/LDR/LDI/ST/STR/STI are `readMem`/`writeMem` at the ISA's effective address (non-strict) -/
theorem exec_ld (s : Sim) (dr : Reg) (off : BitVec 9) (hs : s.flags.strict = false) :
    execInstr (.ld dr off) s =
      match readMem (s.pc + off.signExtend 16) s.defaultCtx s with
      | (.ok v, s1) => (.ok (), (s1.setReg dr v).setCCOf v.data)
      | (.error e, s1) => (.error e, s1) := by
  simp only [execInstr, SimM.bind_apply, SimM.getS_apply, IOff.get, hs, Bool.false_and]
  split <;> simp_all [setRegIfInit]

theorem exec_ldr (s : Sim) (dr b : Reg) (off : BitVec 6) (hs : s.flags.strict = false) :
    execInstr (.ldr dr b off) s =
      match readMem ((s.reg b).data + off.signExtend 16) s.defaultCtx s with
      | (.ok v, s1) => (.ok (), (s1.setReg dr v).setCCOf v.data)
      | (.error e, s1) => (.error e, s1) := by
  simp only [execInstr, SimM.bind_apply, SimM.getS_apply, IOff.get, hs, Bool.false_and,
    Word.getIfInit_nonstrict, SimM.liftE_ok]
  split <;> simp_all [setRegIfInit]

theorem exec_st (s : Sim) (sr : Reg) (off : BitVec 9) (hs : s.flags.strict = false) :
    execInstr (.st sr off) s = writeMem (s.pc + off.signExtend 16) (s.reg sr) s.defaultCtx s := by
  simp only [execInstr, SimM.bind_apply, SimM.getS_apply, IOff.get, hs, Bool.false_and]
  have : ({ s.defaultCtx with strict := false } : Ctx) = s.defaultCtx := by simp [defaultCtx, hs]
  rw [this]

theorem exec_str (s : Sim) (sr b : Reg) (off : BitVec 6) (hs : s.flags.strict = false) :
    execInstr (.str sr b off) s = writeMem ((s.reg b).data + off.signExtend 16) (s.reg sr) s.defaultCtx s := by
  simp only [execInstr, SimM.bind_apply, SimM.getS_apply, IOff.get, hs, Bool.false_and,
    Word.getIfInit_nonstrict, SimM.liftE_ok]
  have : ({ s.defaultCtx with strict := false } : Ctx) = s.defaultCtx := by simp [defaultCtx, hs]
  rw [this]

theorem exec_ldi (s : Sim) (dr : Reg) (off : BitVec 9) (hs : s.flags.strict = false) :
    execInstr (.ldi dr off) s =
      match readMem (s.pc + off.signExtend 16) s.defaultCtx s with
      | (.error e, s1) => (.error e, s1)
      | (.ok p, s1) =>
        match readMem p.data s1.defaultCtx s1 with
        | (.ok v, s2) => (.ok (), (s2.setReg dr v).setCCOf v.data)
        | (.error e, s2) => (.error e, s2) := by
  simp only [execInstr, SimM.bind_apply, SimM.getS_apply, IOff.get, hs, Bool.false_and,
    Word.getIfInit_nonstrict, SimM.liftE_ok]
  split
  · rename_i p s1 h1
    simp only [h1]
    split <;> simp_all [setRegIfInit]
  · simp_all

theorem exec_sti (s : Sim) (sr : Reg) (off : BitVec 9) (hs : s.flags.strict = false) :
    execInstr (.sti sr off) s =
      match readMem (s.pc + off.signExtend 16) s.defaultCtx s with
      | (.error e, s1) => (.error e, s1)
      | (.ok p, s1) => writeMem p.data (s1.reg sr) { s1.defaultCtx with strict := false } s1 := by
  simp only [execInstr, SimM.bind_apply, SimM.getS_apply, IOff.get, hs, Bool.false_and,
    Word.getIfInit_nonstrict, SimM.liftE_ok]
  split <;> simp_all


/-! ### traps, exceptions, virtual and real -/

/-- TRAP is the supervisor-entry path with the zero-extended vector and no priority (R7 is not written) -/
theorem exec_trap (s : Sim) (v : BitVec 8) : execInstr (.trap v) s = handleInterrupt (v.setWidth 16) none s := by
  simp [execInstr, UOff.get]

/-- the three-way structure of `handle_interrupt`: priority gate; virtual break for HALT and the three exceptions
    when real traps are off; otherwise the supervisor entry -/
theorem handle_structure (s : Sim) (vect : W) (prio : Option Nat) :
    handleInterrupt vect prio s =
      if s.gated prio then (.ok (), s)
      else if !s.flags.realTraps then
        match realIntVect vect with
        | some brk => virtualBreak brk s
        | none => enterSupervisor vect prio s
      else enterSupervisor vect prio s := rfl

/-- which vectors are virtualised: x25 (HALT), x100 (privilege), x101 (illegal opcode), x102 (access violation) -/
theorem virtual_vectors :
    realIntVect 0x25 = some .halt ∧ realIntVect 0x100 = some (.err .privilegeViolation) ∧
    realIntVect 0x101 = some (.err .illegalOpcode) ∧ realIntVect 0x102 = some (.err .accessViolation) ∧
    realIntVect 0x20 = none ∧ realIntVect 0x180 = none := by decide

/-- a virtual break reports the break, restores the PC of the instruction that caused it (if it had already been
    incremented) and sets `prefetch`; afterwards `prefetch_pc()` is still the faulting instruction's address -/
theorem virtual_break_spec (s : Sim) (brk : StepBreak) (hs : s.flags.strict = false) :
    (virtualBreak brk s).1 = .error brk ∧
    (virtualBreak brk s).2.pc = (if s.prefetch then s.pc else s.pc - 1) ∧
    (virtualBreak brk s).2.prefetch = true ∧ (virtualBreak brk s).2.prefetchPc = s.prefetchPc ∧
    (virtualBreak brk s).2.mem = s.mem ∧ (virtualBreak brk s).2.regs = s.regs := by
  unfold virtualBreak
  cases hp : s.prefetch
  · simp only [SimM.bind_apply, SimM.getS_apply, hp, Bool.not_false, if_true, offsetPc]
    rw [Sim.setPc_nonstrict _ _ _ hs]
    simp only [SimM.modifyS_apply, SimM.throwB_apply, Word.ofData_data, prefetchPc, hp, Bool.false_eq_true, if_false,
      if_true, true_and, and_true]
    constructor <;> bv_omega
  · simp only [SimM.bind_apply, SimM.getS_apply, hp, Bool.not_true, Bool.false_eq_true, if_false, SimM.pure_apply,
      SimM.throwB_apply, prefetchPc, if_true, true_and, and_true]

/-- a failing fetch (access violation at PC): nothing executed, PC still points at the instruction, `prefetch_pc()` = PC -/
theorem fetch_fault_addr (s1 : Sim) (hu : s1.defaultCtx.privileged = false) (hpc : inUser s1.pc = false)
    (hpf : s1.prefetch = true) :
    ∃ s', fetchExec s1 = (.error (.err .accessViolation), s') ∧ s'.pc = s1.pc ∧ s'.prefetchPc = s1.pc ∧
      s'.mem = s1.mem ∧ s'.regs = s1.regs := by
  obtain ⟨s', h', hm, hr, _, hp, _, _, hpf'⟩ := readMem_violation s1 s1.pc _ hu hpc
  refine ⟨s', ?_, hp, ?_, hm, hr⟩
  · unfold fetchExec; simp [h']
  · simp [prefetchPc, hpf', hpf, hp]

/-- a data access violation in LD / ST (virtual traps): the error is reported with the PC one past the instruction
    and `prefetch` clear, so `prefetch_pc()` is the faulting instruction's address; nothing else changed -/
theorem ld_st_fault_addr (s : Sim) (r : Reg) (off : BitVec 9) (hs : s.flags.strict = false)
    (hu : s.defaultCtx.privileged = false) (ha : inUser (s.pc + off.signExtend 16) = false) (hpf : s.prefetch = false) :
    (∃ s', execInstr (.ld r off) s = (.error (.err .accessViolation), s') ∧ s'.prefetchPc = s.pc - 1 ∧ s'.mem = s.mem ∧ s'.regs = s.regs) ∧
    (∃ s', execInstr (.st r off) s = (.error (.err .accessViolation), s') ∧ s'.prefetchPc = s.pc - 1 ∧ s'.mem = s.mem ∧ s'.regs = s.regs) := by
  constructor
  · obtain ⟨s', h', hm, hr, _, hp, _, _, hpf'⟩ := readMem_violation s (s.pc + off.signExtend 16) _ hu ha
    refine ⟨s', ?_, ?_, hm, hr⟩
    · rw [exec_ld s r off hs, h']
    · simp [prefetchPc, hpf', hpf, hp]
  · obtain ⟨s', h', hm, hr, _, hp, _, _, hpf'⟩ := writeMem_violation s (s.pc + off.signExtend 16) (s.reg r) _ hu ha
    refine ⟨s', ?_, ?_, hm, hr⟩
    · rw [exec_st s r off hs, h']
    · simp [prefetchPc, hpf', hpf, hp]

/-- real traps: `step` turns HALT and the exceptions raised by the inner step into supervisor entries at the OS
    vectors x25, x100 (privilege), x101 (illegal opcode or malformed instruction), x102 (access violation) -/
theorem real_trap_vectoring (s s' : Sim) (hr : s'.flags.realTraps = true) :
    (stepInner s = (.error .halt, s') → Sim.step s = handleInterrupt 0x25 none s') ∧
    (stepInner s = (.error (.err .privilegeViolation), s') → Sim.step s = handleInterrupt 0x100 none s') ∧
    (stepInner s = (.error (.err .illegalOpcode), s') → Sim.step s = handleInterrupt 0x101 none s') ∧
    (stepInner s = (.error (.err .invalidInstrFormat), s') → Sim.step s = handleInterrupt 0x101 none s') ∧
    (stepInner s = (.error (.err .accessViolation), s') → Sim.step s = handleInterrupt 0x102 none s') := by
  refine ⟨?_, ?_, ?_, ?_, ?_⟩ <;> (intro h; unfold Sim.step; simp [h, hr])

/-- virtual traps: `step` is the inner step -/
theorem virtual_step (s : Sim) (hv : (stepInner s).2.flags.realTraps = false) : Sim.step s = stepInner s := by
  unfold Sim.step; simp [hv]

def obligations : List Lean.Name :=
  [``step_structure, ``exec_add, ``exec_and, ``exec_not, ``add_data, ``operate_data, ``setCC_spec, ``exec_lea,
   ``exec_br, ``exec_jmp, ``exec_jsr, ``exec_rti_user, ``readMem_violation, ``writeMem_violation,
   ``readMem_plain, ``writeMem_plain, ``exec_ld, ``exec_ldr, ``exec_st, ``exec_str, ``exec_ldi, ``exec_sti,
   ``exec_trap, ``handle_structure, ``virtual_vectors, ``virtual_break_spec, ``fetch_fault_addr, ``ld_st_fault_addr,
   ``real_trap_vectoring, ``virtual_step]

end Lc3V.C08
