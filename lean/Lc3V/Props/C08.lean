/-
  C08 — Each simulator step follows the LC-3 ISA (non-strict mode; strict mode is C14's subject).

  The "ISA card" as theorems about the model's step.  `stepInner_fetch` (Lemmas/Step.lean) reduces a step in
  which no interrupt is taken and the fetch succeeds to the execute stage on `execState s2` (PC already
  incremented); the theorems below state, for every state, what each instruction's execute stage does, what
  interrupt entry does, and what the exception paths do under virtual and real traps.
  Deviations of the library from Patt & Patel that are part of the specification (DESIGN §3): TRAP does not
  write R7 (it pushes PSR/PC like an interrupt); JSRR Rn reads Rn before linking; PSR written through MMIO keeps
  only bits 15,10-8,2-0 and an invalid CC is coerced to Z.
-/
import Lc3V.Lemmas.Step
import Lc3V.Lemmas.BitTac
namespace Lc3V.C08
open Lc3V Sim SimM

/-- every step is: poll; if a vectored interrupt beats the PSR priority take it, if an external interrupt won
    report it, otherwise fetch/execute (structure of the step; "interrupts only at instruction boundaries"). -/
theorem step_structure (s : Sim) :
    stepInner s =
      match externalInterrupt s, takenInterrupt s with
      | some t, _ => (.error (.err (.interrupt t)), afterPoll s)
      | none, some (v, p) => handleInterrupt (0x100 + v.setWidth 16) (some p) (afterPoll s)
      | none, none => fetchExec (afterPoll s) := by
  unfold stepInner externalInterrupt takenInterrupt
  cases (s.dev.pollInterrupt).1 with
  | none => rfl
  | some i =>
    cases i with
    | external t => rfl
    | vectored v p =>
      by_cases hgt : p > PSR.priority s.psr
      · have : p > PSR.priority (afterPoll s).psr := hgt
        simp [hgt, this]
      · have : ¬ p > PSR.priority (afterPoll s).psr := hgt
        simp [hgt, this]

/-! ### operate instructions -/

theorem exec_add (s : Sim) (dr sr1 : Reg) (op2 : ImmOrReg 5) (hs : s.flags.strict = false) :
    execInstr (.add dr sr1 op2) s =
      (.ok (), ((s.setReg dr (Word.add (s.reg sr1) (s.operand2 op2))).setCCOf
                  (Word.add (s.reg sr1) (s.operand2 op2)).data)) := by
  simp [execInstr, setRegIfInit, hs]

theorem exec_and (s : Sim) (dr sr1 : Reg) (op2 : ImmOrReg 5) (hs : s.flags.strict = false) :
    execInstr (.and dr sr1 op2) s =
      (.ok (), ((s.setReg dr (Word.and (s.reg sr1) (s.operand2 op2))).setCCOf
                  (Word.and (s.reg sr1) (s.operand2 op2)).data)) := by
  simp [execInstr, setRegIfInit, hs]

theorem exec_not (s : Sim) (dr sr : Reg) (hs : s.flags.strict = false) :
    execInstr (.not dr sr) s =
      (.ok (), ((s.setReg dr (Word.not (s.reg sr))).setCCOf (Word.not (s.reg sr)).data)) := by
  simp [execInstr, setRegIfInit, hs]

/-- the data path of ADD/AND/NOT is the wrapping 16-bit operation; immediates are sign-extended -/
theorem operate_data (a b : Word) (v : BitVec 5) (s : Sim) :
    (b.data ≠ 0 ∨ b.init ≠ Word.ALL → a.data ≠ 0 ∨ a.init ≠ Word.ALL → (Word.add a b).data = a.data + b.data) ∧
    (Word.and a b).data = a.data &&& b.data ∧ (Word.not a).data = ~~~a.data ∧
    (s.operand2 (.imm v)).data = v.signExtend 16 := by
  refine ⟨?_, rfl, rfl, rfl⟩
  intro hb ha
  unfold Word.add
  have hb' : ¬ (b.data = 0#16 ∧ b.init = Word.ALL) := by intro ⟨h1, h2⟩; rcases hb with h | h <;> simp_all
  have ha' : ¬ (a.data = 0#16 ∧ a.init = Word.ALL) := by intro ⟨h1, h2⟩; rcases ha with h | h <;> simp_all
  simp [hb', ha']

/-- `a + 0 = a` and `0 + b = b` shortcuts agree with wrapping addition on the data -/
theorem add_data (a b : Word) : (Word.add a b).data = a.data + b.data := by
  unfold Word.add
  split
  · rename_i h; simp only [Bool.and_eq_true, beq_iff_eq] at h; simp [h.1]
  · split
    · rename_i h; simp only [Bool.and_eq_true, beq_iff_eq] at h; simp [h.1]
    · rfl

/-- condition codes: exactly N, Z or P according to the sign of the result -/
theorem setCC_spec (s : Sim) (r : W) :
    PSR.cc (s.setCCOf r).psr = (if r.msb then 4 else if r = 0 then 2 else 1) ∧
    (s.setCCOf r).psr &&& 0xFFF8 = s.psr &&& 0xFFF8 := by
  unfold Sim.setCCOf PSR.setCC PSR.cc
  constructor
  · split
    · simp only; bits16
    · split <;> (simp only; bits16)
  · split
    · simp only; bits16
    · split <;> (simp only; bits16)

theorem exec_lea (s : Sim) (dr : Reg) (off : BitVec 9) :
    execInstr (.lea dr off) s = (.ok (), s.setReg dr (Word.ofData (s.pc + off.signExtend 16))) := by
  simp [execInstr, Word.set, Word.ofData, IOff.get]

/-! ### control instructions -/

theorem exec_br (s : Sim) (cc : BitVec 3) (off : BitVec 9) (hs : s.flags.strict = false) :
    execInstr (.br cc off) s =
      (.ok (), if (cc.setWidth 16 &&& PSR.cc s.psr) ≠ 0 then { s with pc := s.pc + off.signExtend 16 } else s) := by
  simp only [execInstr, SimM.bind_apply, SimM.getS_apply]
  split
  · simp [offsetPc, setPc, hs, IOff.get]
  · rfl

theorem exec_jmp (s : Sim) (b : Reg) (hs : s.flags.strict = false) :
    execInstr (.jmp b) s =
      (.ok (), if b = R7 then popFrame { s with pc := (s.reg b).data } else { s with pc := (s.reg b).data }) := by
  simp only [execInstr, SimM.bind_apply, SimM.getS_apply]
  simp [setPc, hs]
  split <;> rfl

/-- JSR/JSRR: R7 := incremented PC, PC := target (JSRR reads the base register before linking), one frame pushed -/
theorem exec_jsr (s : Sim) (op : ImmOrReg 11) (hs : s.flags.strict = false) :
    execInstr (.jsr op) s =
      let target := match op with
        | .imm off => s.pc + off.signExtend 16
        | .reg b => (s.reg b).data
      let s1 := s.setReg R7 (Word.ofData s.pc)
      (.ok (), { (s1.pushFrame s1.prefetchPc target .subroutine) with pc := target }) := by
  cases op <;> simp [execInstr, callSubroutine, setPc, hs, Word.set, Word.ofData, IOff.get]

/-- RTI in user mode (privilege checks on) is a privilege violation and changes nothing -/
theorem exec_rti_user (s : Sim) (hu : PSR.privileged s.psr = false) (hi : s.flags.ignorePriv = false) :
    execInstr .rti s = (.error (.err .privilegeViolation), s) := by
  simp [execInstr, hu, hi]

/-! ### memory: what a load/store access does (non-I/O addresses) -/

/-- an access outside user space with user privilege is an access violation and touches nothing but the ghost log -/
theorem readMem_violation (s : Sim) (a : W) (c : Ctx) (hp : c.privileged = false) (hu : inUser a = false) :
    ∃ s', readMem a c s = (.error (.err .accessViolation), s') ∧ s'.mem = s.mem ∧ s'.regs = s.regs ∧
      s'.dev = s.dev ∧ s'.pc = s.pc ∧ s'.psr = s.psr ∧ s'.observer = s.observer := by
  refine ⟨{ s with log := ⟨a, false, c.privileged, false⟩ :: s.log }, ?_, rfl, rfl, rfl, rfl, rfl, rfl⟩
  unfold readMem; simp [hp, hu]

theorem writeMem_violation (s : Sim) (a : W) (w : Word) (c : Ctx) (hp : c.privileged = false) (hu : inUser a = false) :
    ∃ s', writeMem a w c s = (.error (.err .accessViolation), s') ∧ s'.mem = s.mem ∧ s'.regs = s.regs ∧
      s'.dev = s.dev ∧ s'.pc = s.pc ∧ s'.psr = s.psr ∧ s'.observer = s.observer := by
  refine ⟨{ s with log := ⟨a, true, c.privileged, false⟩ :: s.log }, ?_, rfl, rfl, rfl, rfl, rfl, rfl⟩
  unfold writeMem; simp [hp, hu]

/-- a permitted read below the I/O page returns the memory word, leaves memory/registers/devices unchanged -/
theorem readMem_plain (s : Sim) (a : W) (c : Ctx) (hp : c.privileged = true ∨ inUser a = true)
    (hio : a.toNat < IO_START) :
    ∃ s', readMem a c s = (.ok (s.memAt a), s') ∧ s'.mem = s.mem ∧ s'.regs = s.regs ∧ s'.dev = s.dev ∧
      s'.pc = s.pc ∧ s'.psr = s.psr := by
  have hg : (!c.privileged && !inUser a) = false := by rcases hp with h | h <;> simp [h]
  have hio' : ¬ IO_START ≤ a.toNat := by omega
  unfold readMem
  simp only [hg, hio']
  by_cases ht : c.track <;> simp [ht, memAt]

/-- a permitted non-strict write below the I/O page stores the word there and nowhere else -/
theorem writeMem_plain (s : Sim) (a : W) (w : Word) (c : Ctx) (hp : c.privileged = true ∨ inUser a = true)
    (hio : a.toNat < IO_START) (hs : c.strict = false) :
    ∃ s', writeMem a w c s = (.ok (), s') ∧ s'.mem = s.mem.set a.toNat w a.isLt ∧ s'.regs = s.regs ∧
      s'.dev = s.dev ∧ s'.pc = s.pc ∧ s'.psr = s.psr := by
  have hg : (!c.privileged && !inUser a) = false := by rcases hp with h | h <;> simp [h]
  have hio' : ¬ IO_START ≤ a.toNat := by omega
  unfold writeMem
  simp only [hg, ioWritePart, hio', storePart]
  by_cases ht : c.track <;> simp [ht, hs, setMem]

/-- LD/LDR/LDI/ST/STR/STI are `readMem`/`writeMem` at the ISA's effective address (non-strict) -/
theorem exec_ld (s : Sim) (dr : Reg) (off : BitVec 9) (hs : s.flags.strict = false) :
    execInstr (.ld dr off) s =
      match readMem (s.pc + off.signExtend 16) s.defaultCtx s with
      | (.ok v, s1) => (.ok (), (s1.setReg dr v).setCCOf v.data)
      | (.error e, s1) => (.error e, s1) := by
  simp only [execInstr, SimM.bind_apply, SimM.getS_apply, IOff.get, hs, Bool.false_and]
  split <;> simp_all [setRegIfInit]

theorem exec_ldr (s : Sim) (dr b : Reg) (off : BitVec 6) (hs : s.flags.strict = false) :
    execInstr (.ldr dr b off) s =
      match readMem ((s.reg b).data + off.signExtend 16) s.defaultCtx s with
      | (.ok v, s1) => (.ok (), (s1.setReg dr v).setCCOf v.data)
      | (.error e, s1) => (.error e, s1) := by
  simp only [execInstr, SimM.bind_apply, SimM.getS_apply, IOff.get, hs, Bool.false_and,
    Word.getIfInit_nonstrict, SimM.liftE_ok]
  split <;> simp_all [setRegIfInit]

theorem exec_st (s : Sim) (sr : Reg) (off : BitVec 9) (hs : s.flags.strict = false) :
    execInstr (.st sr off) s = writeMem (s.pc + off.signExtend 16) (s.reg sr) s.defaultCtx s := by
  simp only [execInstr, SimM.bind_apply, SimM.getS_apply, IOff.get, hs, Bool.false_and]
  have : ({ s.defaultCtx with strict := false } : Ctx) = s.defaultCtx := by simp [defaultCtx, hs]
  rw [this]

theorem exec_str (s : Sim) (sr b : Reg) (off : BitVec 6) (hs : s.flags.strict = false) :
    execInstr (.str sr b off) s = writeMem ((s.reg b).data + off.signExtend 16) (s.reg sr) s.defaultCtx s := by
  simp only [execInstr, SimM.bind_apply, SimM.getS_apply, IOff.get, hs, Bool.false_and,
    Word.getIfInit_nonstrict, SimM.liftE_ok]
  have : ({ s.defaultCtx with strict := false } : Ctx) = s.defaultCtx := by simp [defaultCtx, hs]
  rw [this]

theorem exec_ldi (s : Sim) (dr : Reg) (off : BitVec 9) (hs : s.flags.strict = false) :
    execInstr (.ldi dr off) s =
      match readMem (s.pc + off.signExtend 16) s.defaultCtx s with
      | (.error e, s1) => (.error e, s1)
      | (.ok p, s1) =>
        match readMem p.data s1.defaultCtx s1 with
        | (.ok v, s2) => (.ok (), (s2.setReg dr v).setCCOf v.data)
        | (.error e, s2) => (.error e, s2) := by
  simp only [execInstr, SimM.bind_apply, SimM.getS_apply, IOff.get, hs, Bool.false_and,
    Word.getIfInit_nonstrict, SimM.liftE_ok]
  split
  · rename_i p s1 h1
    simp only [h1]
    split <;> simp_all [setRegIfInit]
  · simp_all

theorem exec_sti (s : Sim) (sr : Reg) (off : BitVec 9) (hs : s.flags.strict = false) :
    execInstr (.sti sr off) s =
      match readMem (s.pc + off.signExtend 16) s.defaultCtx s with
      | (.error e, s1) => (.error e, s1)
      | (.ok p, s1) => writeMem p.data (s1.reg sr) { s1.defaultCtx with strict := false } s1 := by
  simp only [execInstr, SimM.bind_apply, SimM.getS_apply, IOff.get, hs, Bool.false_and,
    Word.getIfInit_nonstrict, SimM.liftE_ok]
  split <;> simp_all

def obligations : List Lean.Name :=
  [``step_structure, ``exec_add, ``exec_and, ``exec_not, ``add_data, ``operate_data, ``setCC_spec, ``exec_lea,
   ``exec_br, ``exec_jmp, ``exec_jsr, ``exec_rti_user, ``readMem_violation, ``writeMem_violation,
   ``readMem_plain, ``writeMem_plain, ``exec_ld, ``exec_ldr, ``exec_st, ``exec_str, ``exec_ldi, ``exec_sti]

end Lc3V.C08
