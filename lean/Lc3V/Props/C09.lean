/-
  C09 — User-mode code cannot touch memory or state outside user space.   (proved for the model, whole steps)
  Proved here (all states): the access context of a user-mode machine with privilege checks on is unprivileged;
  an unprivileged access outside x3000-xFDFF is rejected as an access violation *before* memory, devices,
  internal registers or the observer are touched; an unprivileged access that is performed lies in user space;
  RTI in user mode is a privilege violation that changes nothing.
  Whole step (`user_step_confined`, via the frame calculus of Lemmas/UserFrame + UserStep over every instruction): a
  user-mode step that is not a TRAP and takes no interrupt ends in user mode with memory outside user space, devices,
  internal registers, saved SP and MCR unchanged, and with every logged access unprivileged and, if performed, inside
  x3000-xFDFF — whether the step succeeded or was rejected.  TRAP and interrupts enter the supervisor (C10, C12); with
  real traps a rejected access continues into the OS exception handler (C08.real_trap_vectoring).
  Over runs: the correspondence oracle (every access of every step of generated user programs).
-/
import Lc3V.Props.C08
import Lc3V.Lemmas.UserStep
namespace Lc3V.C09
open Lc3V Sim SimM

def userMode (s : Sim) : Prop := PSR.privileged s.psr = false ∧ s.flags.ignorePriv = false

theorem user_ctx_unprivileged (s : Sim) (h : userMode s) : s.defaultCtx.privileged = false := by
  simp [defaultCtx, h.1, h.2]

/-- user space is exactly x3000..xFDFF -/
theorem inUser_iff (a : W) : inUser a = true ↔ 0x3000 ≤ a.toNat ∧ a.toNat ≤ 0xFDFF := by
  simp [inUser]; omega

/-- an unprivileged read that is not rejected reads a user-space address -/
theorem read_performed_in_user (s : Sim) (a : W) (c : Ctx) (hp : c.privileged = false) (w : Word) (s' : Sim)
    (h : readMem a c s = (.ok w, s')) : inUser a = true := by
  by_cases hu : inUser a = true
  · exact hu
  · have hu' : inUser a = false := by simpa using hu
    obtain ⟨s'', h', _⟩ := C08.readMem_violation s a c hp hu'
    rw [h'] at h; cases h

theorem write_performed_in_user (s : Sim) (a : W) (d : Word) (c : Ctx) (hp : c.privileged = false) (s' : Sim)
    (h : writeMem a d c s = (.ok (), s')) : inUser a = true := by
  by_cases hu : inUser a = true
  · exact hu
  · have hu' : inUser a = false := by simpa using hu
    obtain ⟨s'', h', _⟩ := C08.writeMem_violation s a d c hp hu'
    rw [h'] at h; cases h

/-- a rejected access leaves memory, registers, devices, PC, PSR and the observer unchanged -/
theorem user_violation_changes_nothing (s : Sim) (a : W) (d : Word) (h : userMode s) (hu : inUser a = false) :
    (∃ s', readMem a s.defaultCtx s = (.error (.err .accessViolation), s') ∧ s'.mem = s.mem ∧ s'.regs = s.regs ∧
        s'.dev = s.dev ∧ s'.pc = s.pc ∧ s'.psr = s.psr ∧ s'.observer = s.observer ∧ s'.prefetch = s.prefetch) ∧
    (∃ s', writeMem a d s.defaultCtx s = (.error (.err .accessViolation), s') ∧ s'.mem = s.mem ∧ s'.regs = s.regs ∧
        s'.dev = s.dev ∧ s'.pc = s.pc ∧ s'.psr = s.psr ∧ s'.observer = s.observer ∧ s'.prefetch = s.prefetch) :=
  ⟨C08.readMem_violation s a _ (user_ctx_unprivileged s h) hu, C08.writeMem_violation s a d _ (user_ctx_unprivileged s h) hu⟩

/-- a user-mode fetch outside user space fails before anything is executed (virtual traps: reported with PC unchanged) -/
theorem user_fetch_violation (s : Sim) (h : userMode (afterPoll s)) (hu : inUser s.pc = false) :
    ∃ s', fetchExec (afterPoll s) = (.error (.err .accessViolation), s') ∧ s'.mem = s.mem ∧ s'.regs = s.regs ∧
      s'.pc = s.pc ∧ s'.psr = s.psr := by
  have hpc : (afterPoll s).pc = s.pc := rfl
  obtain ⟨s', h', hm, hr, _, hp, hps, _⟩ := C08.readMem_violation (afterPoll s) s.pc _ (user_ctx_unprivileged _ h) hu
  refine ⟨s', ?_, hm, hr, hp, hps⟩
  unfold fetchExec
  simp [hpc, h']

/-- no RTI executes in user mode -/
theorem user_rti (s : Sim) (h : userMode s) : execInstr .rti s = (.error (.err .privilegeViolation), s) :=
  C08.exec_rti_user s h.1 h.2

/-- a user-mode store (any addressing mode reduces to this, C08.exec_st/str/sti) either faults or writes one
    user-space cell below the I/O page and nothing else -/
theorem user_store (s : Sim) (a : W) (d : Word) (h : userMode s) (hs : s.flags.strict = false) :
    (inUser a = false ∧ ∃ s', writeMem a d s.defaultCtx s = (.error (.err .accessViolation), s') ∧ s'.mem = s.mem ∧ s'.dev = s.dev) ∨
    (inUser a = true ∧ ∃ s', writeMem a d s.defaultCtx s = (.ok (), s') ∧ s'.mem = s.mem.set a.toNat d a.isLt ∧ s'.dev = s.dev ∧ s'.regs = s.regs) := by
  by_cases hu : inUser a = true
  · right
    have hio : a.toNat < IO_START := by have := (inUser_iff a).mp hu; unfold IO_START; omega
    obtain ⟨s', h1, h2, h3, h4, _⟩ := C08.writeMem_plain s a d s.defaultCtx (Or.inr hu) hio (by simp [defaultCtx, hs])
    exact ⟨hu, s', h1, h2, h4, h3⟩
  · left
    have hu' : inUser a = false := by simpa using hu
    obtain ⟨s', h1, h2, _, h4, _⟩ := C08.writeMem_violation s a d _ (user_ctx_unprivileged s h) hu'
    exact ⟨hu', s', h1, h2, h4⟩

/-! ### whole steps -/

/-- **a user-mode step is confined to user space** (every instruction except TRAP, no interrupt taken): after the step —
    whether it succeeded or was rejected — the machine is still in user mode; memory outside x3000–xFDFF (OS, vector tables,
    supervisor stack, I/O page), all devices (beyond the interrupt poll that opens every step), the internal-register map,
    the saved stack pointer and the MCR are unchanged; every access the step made was unprivileged, and every access that
    was performed lies in x3000–xFDFF.  (TRAP and interrupts enter the supervisor: C10/C12.) -/
theorem user_step_confined (s : Sim) (h : userMode s)
    (hpoll : (s.dev.pollInterrupt).1 = none ∨
      ∃ v p, (s.dev.pollInterrupt).1 = some (.vectored v p) ∧ ¬ p > PSR.priority s.psr)
    (hnt : ∀ i, SimInstr.decode (s.memAt s.pc).data = .ok i → i.isTrap = false) :
    UFrame (afterPoll s) (stepInner s).2 := by
  have hfe := fetchExec_user_frame (afterPoll s) h.1 h.2 hnt
  unfold stepInner
  rcases hpoll with hp | ⟨v, p, hp, hprio⟩
  · simp only [hp]; exact hfe
  · have : ¬ p > PSR.priority (afterPoll s).psr := hprio
    simp only [hp, this, if_false]; exact hfe

/-- the same in plain terms -/
theorem user_step_confined' (s : Sim) (h : userMode s)
    (hpoll : (s.dev.pollInterrupt).1 = none)
    (hnt : ∀ i, SimInstr.decode (s.memAt s.pc).data = .ok i → i.isTrap = false) :
    PSR.privileged (stepInner s).2.psr = false ∧
    (∀ a, inUser a = false → (stepInner s).2.memAt a = s.memAt a) ∧
    (stepInner s).2.dev = (s.dev.pollInterrupt).2 ∧ (stepInner s).2.savedSp = s.savedSp ∧ (stepInner s).2.mcr = s.mcr ∧
    ∃ new, (stepInner s).2.log = new ++ s.log ∧ ∀ x ∈ new, x.privileged = false ∧ (x.performed = true → inUser x.addr = true) := by
  have hf := user_step_confined s h (Or.inl hpoll) hnt
  exact ⟨hf.user, hf.mem, hf.dev, hf.savedSp, hf.mcr, hf.log⟩

/-- with virtual traps `step` is the inner step, so the confinement holds for `step` as the API runs it -/
theorem user_step_confined_virtual (s : Sim) (h : userMode s) (hv : s.flags.realTraps = false)
    (hpoll : (s.dev.pollInterrupt).1 = none)
    (hnt : ∀ i, SimInstr.decode (s.memAt s.pc).data = .ok i → i.isTrap = false) :
    UFrame (afterPoll s) (Sim.step s).2 := by
  have hf := user_step_confined s h (Or.inl hpoll) hnt
  have : (stepInner s).2.flags.realTraps = false := by rw [hf.flags]; exact hv
  rw [C08.virtual_step s this]
  exact hf

-- non-vacuity: the reset state is a user-mode state
example : PSR.privileged PSR.new = false := by decide

def obligations : List Lean.Name :=
  [``user_ctx_unprivileged, ``inUser_iff, ``read_performed_in_user, ``write_performed_in_user,
   ``user_violation_changes_nothing, ``user_fetch_violation, ``user_rti, ``user_store, ``user_step_confined, ``user_step_confined',
   ``user_step_confined_virtual]

end Lc3V.C09
