/-
  C10 — Interrupts are priority-gated and transparent to the interrupted program.
  Proved for every state:
   * gate / boundary: a step takes an interrupt iff this step's poll returned a vectored request whose priority
     exceeds the PSR priority, and it does so *instead of* fetching (one poll per step, at its start:
     C08.step_structure) — `gate`;
   * arbitration: the poll returns a request of maximal priority among those raised in this poll (external
     requests rank above all vectored ones) — `arbitration`;
   * entry: supervisor mode, old PSR then old PC pushed at the supervisor stack pointer, R6 = SSP-2, CC = Z, priority
     set for interrupts (kept for traps), PC = M[vector], user R6 saved in the saved SP when coming from user mode,
     one frame pushed, no other memory cell changed — `entry`;
   * RTI pops PC and PSR, restores R6 (swapping back to the user stack when the popped PSR is a user PSR), pops a
     frame — `rti_spec`; and RTI right after an entry restores PC, PSR, R6 and the saved SP exactly —
     `rti_undoes_entry` (the two stack words below the old stack pointer are the only memory difference).
   * transparency (session 5, `Rt.interrupt_transparent`, Lemmas/IntTransparent): an interrupt taken at an
     instruction boundary whose handler — any code — leaves R6's value, every other register, the control state and
     memory as it found them and ends in RTI returns to the interrupted instruction with PC, PSR (CC, privilege,
     priority), every register, both stack pointers, flags and all memory below the I/O page except the two
     supervisor-stack cells (and the cells the handler is allowed to use) unchanged; nothing was fetched in between
     (`taken_is_entry`), so the interrupted program continues as if uninterrupted.
  The induction over a whole run with several interrupts, and the statement that an uninterrupted and an interrupted
  run produce the same output, are checked by the correspondence oracle (interrupted vs uninterrupted runs); the
  per-interrupt theorem above is what each induction step needs (plus C09: user code never reads below x3000).
  The theorems themselves are in Lemmas/C10Core.lean (moved so that later modules can import them).
  Session 5, whole runs (Lemmas/IntRun, namespace `NI`): `interrupted_run_eqv` / `interrupted_run_user` — a user-mode program
  of non-TRAP instructions (non-strict, virtual traps) that is interrupted ANY number of times at ANY of its instruction
  boundaries by handlers that restore what they use ends, after its n instructions, with the same registers, PC, PSR
  (condition codes), flags and ALL of user memory as the uninterrupted run; if the uninterrupted program faults at its next
  instruction so does the interrupted one, with the same error (`interrupted_fault_same`).  Ingredients: a relational
  calculus for "a user-mode computation cannot tell states apart that differ only outside user space, in the devices, the
  supervisor stack pointer and the bookkeeping" (`Rel2`, `step_eqv`: every instruction other than TRAP) and
  `interrupt_keeps_user_state` (from `Rt.interrupt_transparent`: one interrupt leaves such a state).  `paired_run_eqv`
  extends this to programs that call OS routines between interrupts: side by side, the interrupted and the uninterrupted
  run stay equivalent across a routine that meets its contract on both machines (`Rt.Returned`, proved for GETC, OUT, PUTS,
  IN, PUTSP in C11; `returned_pair`), provided input routines read the same input.  Left to the interrupted-vs-uninterrupted
  oracle: strict mode, the comparison of the display output, interrupts inside an OS routine.
-/
import Lc3V.Lemmas.C10Core
import Lc3V.Lemmas.IntTransparent
import Lc3V.Lemmas.IntRun
namespace Lc3V.C10
open Lc3V

def obligations : List Lean.Name :=
  [``gate, ``taken_is_entry, ``pollStep_best, ``arbitration, ``key_order, ``enterCore_spec, ``sp_cells_distinct,
   ``entry, ``rti_spec, ``rti_undoes_entry, ``Rt.handler_returns, ``Rt.interrupt_transparent,
   ``NI.Rel2.readMem, ``NI.Rel2.writeMem, ``NI.Rel2.execInstr, ``NI.fetchExec_eqv, ``NI.step_eqv, ``NI.interrupt_gives_eqv,
   ``NI.interrupted_run_eqv, ``NI.interrupted_fault_same, ``NI.interrupt_keeps_user_state, ``NI.interrupted_run_user,
   ``NI.returned_pair, ``NI.paired_run_eqv]

end Lc3V.C10
