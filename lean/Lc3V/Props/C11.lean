/-
  C11 — Built-in OS trap routines meet their contracts.
  The OS image (`Gen/OsImage.lean`) is regenerated from /repo's `src/os.asm` (through /repo's assembler) on every
  run, so every theorem here is re-checked against the OS text that is in the tree now.

  Part 1 (`Lemmas/C11Core`, kernel evaluation of the decoder over the image): each trap vector x20-x25 points at a
  routine whose decoded instruction listing is exactly the known-good routine, with the device pointers resolving to
  KBSR/KBDR/DSR/DDR/MCR and the prompt / exception message strings as specified.  An edit of os.asm that changes
  any of these breaks a proof.

  Part 2 (`Lemmas/OsRoutines`, `Lemmas/OsPuts`, `Lemmas/OsPutsp`): the semantic contracts, for every machine state, every device
  set and every number of unsuccessful device polls — by stepping the model's fetch-execute function through the
  checked listing (induction over the polls and, for PUTS, over the string):
    * `Rt.getc_trap`  GETC: the next keyboard byte in R0, the keyboard advanced by exactly the reads made;
    * `Rt.out_trap`   OUT/PUTC: exactly one write of R0 to DDR after the status reads, R0 preserved;
    * `Rt.puts_trap`  PUTS: exactly the words of the zero-terminated string at R0, in order;
    * `Rt.in_trap`    IN: the prompt, then the byte read, echoed, and returned in R0;
    * `Rt.putsp_trap` PUTSP: exactly the bytes of the packed string at R0 (low byte, then high byte of each word — the
                      high byte obtained by the eight-round shift loop, proved to compute `w >>> 8` — up to the first
                      zero byte), in order;
    * `Rt.halt_contract`, `Rt.halt_trap`, `Rt.mcr_off_stops`  HALT: the MCR bit is cleared and the run loop stops;
  and in each case (`Rt.Returned`) control is at the instruction after the TRAP with the PSR (condition codes,
  privilege, priority), every register other than the result register, both stack pointers, the flags, the
  internal-register map and all memory below the I/O page except the named supervisor-stack cells unchanged.
  Hypotheses: the OS is in memory (`Rt.OsLoaded`; `Rt.newSim_osLoaded` shows the constructor and `reset` establish
  it), non-strict mode, the TRAP is fetched from plain memory, the supervisor-stack cells used lie in plain memory
  above the OS image, the device ports are not shadowed by internal registers, and the devices answer as named.
  `Rt.demo_getc` instantiates everything on a freshly constructed machine (non-vacuity).
  The contracts are about the PUBLIC `step` function (`Rt.feN n` = `n` calls of `Sim.step`).  The device poll that opens
  every step must be quiet; this is required as a set `Q` of device configurations that is closed under the routines'
  device accesses (`Rt.QuietSet`: poll reports nothing and changes nothing; closed under reads and DDR stores), with the
  devices of the start state in `Q`.  `Rt.stdDev_quiet`: the default devices (keyboard with interrupts disabled, display)
  in every buffer and lock state form such a set; `Rt.step_quiet` is the bridge lemma.  A poll that does take an interrupt
  is C10's subject (`gate`, `entry`, `interrupt_transparent`).
  Not proved: strict mode, and the composition with interrupts arriving during a routine.
-/
import Lc3V.Lemmas.C11Core
import Lc3V.Lemmas.OsRoutines
import Lc3V.Lemmas.OsPuts
import Lc3V.Lemmas.OsPutsp
import Lc3V.Lemmas.OsStd
namespace Lc3V.C11
open Lc3V

def obligations : List Lean.Name :=
  [``getc_listing, ``putc_listing, ``puts_listing, ``in_listing, ``putsp_listing, ``halt_listing, ``default_vectors,
   ``Rt.fetchExec_plain, ``Rt.trap_step_os, ``Rt.return_from, ``Rt.newSim_osLoaded, ``Rt.newSim_mcr_mapped,
   ``Rt.getc_trap, ``Rt.out_trap, ``Rt.puts_trap, ``Rt.in_trap, ``Rt.halt_contract, ``Rt.halt_trap,
   ``Rt.mcr_off_stops, ``Rt.demo_getc, ``Rt.round_k, ``Rt.eight_rounds, ``Rt.shift_loop, ``Rt.putsp_loop,
   ``Rt.putsp_trap, ``Rt.step_quiet, ``Rt.stdDev_quiet,
   ``Rt.stdDevs_emits, ``Rt.getc_std, ``Rt.out_std, ``Rt.puts_std, ``Rt.putsp_std, ``Rt.in_std]

end Lc3V.C11
