/-
  C12 — Real and virtual traps agree except at HALT and exceptions.
  The `use_real_traps` flag is consulted in exactly two places: `handle_interrupt` (only for the vectors x25, x100,
  x101, x102) and the `step` wrapper (only when the inner step broke with halt or one of the three exceptions).
  Proved for every state: (`lockstep`) a step whose inner step succeeds is the same step under both settings; a TRAP or
  interrupt through any other vector enters the supervisor identically under both settings
  (`other_vectors_same`); under virtual traps HALT / exceptions stop with the break, under real traps they become
  supervisor entries at the OS vectors (C08.real_trap_vectoring); and on the current (regenerated) OS image those
  vectors point at handlers that print exactly the message for that exception with PUTS and then HALT
  (`exception_handlers`), HALT being the MCR-clearing loop (C11.halt_listing).
  The whole-program statement (same display, R0-R5 and user memory) composes these with C11's routine contracts; it is
  checked end-to-end by the correspondence oracle (paired virtual/real runs) until those contracts are theorems.
-/
import Lc3V.Props.C11
namespace Lc3V.C12
open Lc3V Sim SimM

def withReal (s : Sim) (b : Bool) : Sim := { s with flags := { s.flags with realTraps := b } }

/-- a step whose inner part succeeds is not affected by the wrapper, whatever the flag -/
theorem lockstep (s s' : Sim) (h : stepInner s = (.ok (), s')) : Sim.step s = (.ok (), s') := by
  unfold Sim.step; simp only [h]; cases s'.flags.realTraps <;> simp

/-- through a vector that is not x25/x100/x101/x102 the entry does not look at the flag -/
theorem other_vectors_same (s : Sim) (vect : W) (prio : Option Nat) (h : realIntVect vect = none) :
    handleInterrupt vect prio s = if s.gated prio then (.ok (), s) else enterSupervisor vect prio s := by
  rw [C08.handle_structure]
  cases s.flags.realTraps <;> simp only [h, Bool.not_false, Bool.not_true, if_true, Bool.false_eq_true, if_false]

/-- the I/O traps GETC, OUT, PUTS, IN, PUTSP are not virtualised -/
theorem io_traps_not_virtual :
    realIntVect 0x20 = none ∧ realIntVect 0x21 = none ∧ realIntVect 0x22 = none ∧ realIntVect 0x23 = none ∧
    realIntVect 0x24 = none := by decide

/-- virtual traps: HALT and the three exceptions stop the step with the corresponding break -/
theorem virtual_breaks (s : Sim) (vect : W) (brk : StepBreak) (hv : s.flags.realTraps = false)
    (hb : realIntVect vect = some brk) (hs : s.flags.strict = false) :
    (handleInterrupt vect none s).1 = .error brk ∧ (handleInterrupt vect none s).2.mem = s.mem ∧
    (handleInterrupt vect none s).2.regs = s.regs ∧ (handleInterrupt vect none s).2.prefetchPc = s.prefetchPc := by
  rw [C08.handle_structure]
  simp only [hv, hb, Bool.not_false, if_true, Bool.false_eq_true, if_false, gated]
  obtain ⟨h1, _, _, h4, h5, h6⟩ := C08.virtual_break_spec s brk hs
  exact ⟨h1, h5, h6, h4⟩

set_option maxRecDepth 100000 in
/-- on the current OS image the exception vectors point at handlers that print exactly these messages with PUTS and
    then execute HALT -/
theorem exception_handlers :
    C11.chkMsg (C11.vec 0x100) "\n--- Privilege violation ---" (.trap 0x25) = true ∧
    C11.chkMsg (C11.vec 0x101) "\n--- Illegal opcode ---" (.trap 0x25) = true ∧
    C11.chkMsg (C11.vec 0x102) "\n--- Access violation ---" (.trap 0x25) = true := by decide +kernel

def obligations : List Lean.Name :=
  [``lockstep, ``other_vectors_same, ``io_traps_not_virtual, ``virtual_breaks, ``exception_handlers]

end Lc3V.C12
