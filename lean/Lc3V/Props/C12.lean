/-
  C12 — Real and virtual traps agree except at HALT and exceptions.
  The `use_real_traps` flag is consulted in exactly two places: `handle_interrupt` (only for the vectors x25, x100,
  x101, x102) and the `step` wrapper (only when the inner step broke with halt or one of the three exceptions).
  Proved for every state: (`lockstep`) a step whose inner step succeeds is the same step under both settings; a TRAP or
  interrupt through any other vector enters the supervisor identically under both settings
  (`other_vectors_same`); under virtual traps HALT / exceptions stop with the break, under real traps they become
  supervisor entries at the OS vectors (C08.real_trap_vectoring); and on the current (regenerated) OS image those
  vectors point at handlers that print exactly the message for that exception with PUTS and then HALT
  (`exception_handlers`), HALT being the MCR-clearing loop (C11.halt_listing).
  The whole-program statement (same display, R0-R5 and user memory) composes these with C11's routine contracts; it is
  checked end-to-end by the correspondence oracle (paired virtual/real runs) until those contracts are theorems.
-/
import Lc3V.Props.C11
import Lc3V.Lemmas.RealRel
namespace Lc3V.C12
open Lc3V Sim SimM

def withReal (s : Sim) (b : Bool) : Sim := { s with flags := { s.flags with realTraps := b } }

/-- a step whose inner part succeeds is not affected by the wrapper, whatever the flag -/
theorem lockstep (s s' : Sim) (h : stepInner s = (.ok (), s')) : Sim.step s = (.ok (), s') := by
  unfold Sim.step; simp only [h]; cases s'.flags.realTraps <;> simp

/-- through a vector that is not x25/x100/x101/x102 the entry does not look at the flag -/
theorem other_vectors_same (s : Sim) (vect : W) (prio : Option Nat) (h : realIntVect vect = none) :
    handleInterrupt vect prio s = if s.gated prio then (.ok (), s) else enterSupervisor vect prio s := by
  rw [C08.handle_structure]
  cases s.flags.realTraps <;> simp only [h, Bool.not_false, Bool.not_true, if_true, Bool.false_eq_true, if_false]

/-- the I/O traps GETC, OUT, PUTS, IN, PUTSP are not virtualised -/
theorem io_traps_not_virtual :
    realIntVect 0x20 = none ∧ realIntVect 0x21 = none ∧ realIntVect 0x22 = none ∧ realIntVect 0x23 = none ∧
    realIntVect 0x24 = none := by decide

/-- virtual traps: HALT and the three exceptions stop the step with the corresponding break -/
theorem virtual_breaks (s : Sim) (vect : W) (brk : StepBreak) (hv : s.flags.realTraps = false)
    (hb : realIntVect vect = some brk) (hs : s.flags.strict = false) :
    (handleInterrupt vect none s).1 = .error brk ∧ (handleInterrupt vect none s).2.mem = s.mem ∧
    (handleInterrupt vect none s).2.regs = s.regs ∧ (handleInterrupt vect none s).2.prefetchPc = s.prefetchPc := by
  rw [C08.handle_structure]
  simp only [hv, hb, Bool.not_false, if_true, Bool.false_eq_true, if_false, gated]
  obtain ⟨h1, _, _, h4, h5, h6⟩ := C08.virtual_break_spec s brk hs
  exact ⟨h1, h5, h6, h4⟩

set_option maxRecDepth 100000 in
/-- on the current OS image the exception vectors point at handlers that print exactly these messages with PUTS and
    then execute HALT -/
theorem exception_handlers :
    C11.chkMsg (C11.vec 0x100) "\n--- Privilege violation ---" (.trap 0x25) = true ∧
    C11.chkMsg (C11.vec 0x101) "\n--- Illegal opcode ---" (.trap 0x25) = true ∧
    C11.chkMsg (C11.vec 0x102) "\n--- Access violation ---" (.trap 0x25) = true := by decide +kernel

/-- **one step**: a step that succeeds on the virtual-trap machine is the same step on the machine with real traps (same result,
    same registers, PC, PSR, memory, devices, frames, observer, counter) -/
theorem real_step_same (s s' : Sim) (hv : s.flags.realTraps = false) (h : Sim.step s = (.ok (), s')) :
    Sim.step (RT.rt s) = (.ok (), RT.rt s') := by
  have hr := RT.step_real_rel s hv
  rw [h] at hr
  obtain ⟨_, hrr⟩ := hr
  rcases hrr with ⟨e, he⟩ | hrr
  · cases he
  · exact hrr

/-- **whole executions**: as long as the virtual-trap machine has executed `n` steps without reaching HALT or an exception (or
    any other error), the real-trap machine has executed the same `n` steps and is in the same state — enabling real traps
    changes only what happens at HALT and at exceptions -/
theorem real_prefix_same (n : Nat) (s s' : Sim) (hv : s.flags.realTraps = false) (h : RT.okSteps n s = some s') :
    RT.okSteps n (RT.rt s) = some (RT.rt s') :=
  (RT.okSteps_real n s s' hv h).1

/-- the same for `run`, `run_with_limit`, `step_over`, `step_out`, `run_while`: a virtual-trap run that pauses (limit,
    breakpoint, tripwire, MCR) rather than halting or failing pauses in the same state under real traps -/
theorem real_run_same (tw : Tripwire) (fuel iter : Nat) (s s' : Sim) (p : Pause) (hv : s.flags.realTraps = false)
    (h : runLoop tw fuel iter s = some (.ok p, s')) (hp : p ≠ .halt) :
    runLoop tw fuel iter (RT.rt s) = some (.ok p, RT.rt s') := by
  have hr := RT.runLoop_real tw fuel iter s hv
  rw [h] at hr
  obtain ⟨_, hrr⟩ := hr
  rcases hrr with (hh | ⟨e, he⟩) | hrr
  · injection hh with hh; exact absurd hh hp
  · cases he
  · exact hrr

def obligations : List Lean.Name :=
  [``lockstep, ``other_vectors_same, ``io_traps_not_virtual, ``virtual_breaks, ``exception_handlers,
   ``RT.step_real_rel, ``RT.okSteps_real, ``RT.runLoop_real, ``real_step_same, ``real_prefix_same, ``real_run_same]

end Lc3V.C12
