/-
  C12 — Real and virtual traps agree except at HALT and exceptions.
  The `use_real_traps` flag is consulted in exactly two places: `handle_interrupt` (only for the vectors x25, x100,
  x101, x102) and the `step` wrapper (only when the inner step broke with halt or one of the three exceptions).
  Proved for every state: (`lockstep`) a step whose inner step succeeds is the same step under both settings; a TRAP or
  interrupt through any other vector enters the supervisor identically under both settings
  (`other_vectors_same`); under virtual traps HALT / exceptions stop with the break, under real traps they become
  supervisor entries at the OS vectors (C08.real_trap_vectoring); and on the current (regenerated) OS image those
  vectors point at handlers that print exactly the message for that exception with PUTS and then HALT
  (`exception_handlers`), HALT being the MCR-clearing loop (C11.halt_listing).
  Session 5: (`real_step_same`, `real_prefix_same`, `real_run_same`, Lemmas/RealRel) as long as the virtual-trap run
  has not reached HALT or an exception the real-trap run is in the same state; at HALT (`real_halt_through_os`) the
  OS routine clears MCR and nothing else a user program can observe changes; at an exception
  (`real_exception_prints`, Lemmas/OsExc) `step` enters the handler, the display receives exactly the OS message for
  that exception and the machine halts through the OS.  These use C11's routine contracts (PUTS, HALT), hence their
  hypotheses (OS loaded, non-strict, supervisor stack in plain memory, devices in a quiet set `Q` — e.g. the default devices,
  `Rt.stdDev_quiet`); `Rt.feN n` is `n` calls of the public `step`.
  `halting_program` concatenates prefix and final segment for a program that halts: n common instructions, then the
  virtual machine stops with the halt break and the real-trap machine clears MCR three steps later, same registers,
  memory (up to two supervisor-stack cells) and devices.  `excepting_program` does the same for a program that ends in an exception:
  the calculus of Lemmas/RealRel is parametric in the set of breaks at which the two machines may part; inside a step
  without pending interrupt that set is {HALT} (`RT.trap_vect_halt`: a TRAP instruction can name no other virtualised
  vector), so an inner step that fails with an exception fails identically under real traps
  (`RT.stepInner_exception_same`); then `step` vectors it, the message is printed and the machine halts through the OS.
-/
import Lc3V.Props.C11
import Lc3V.Lemmas.RealRel
import Lc3V.Lemmas.OsExc
namespace Lc3V.C12
open Lc3V Sim SimM

def withReal (s : Sim) (b : Bool) : Sim := { s with flags := { s.flags with realTraps := b } }

/-- a step whose inner part succeeds is not affected by the wrapper, whatever the flag -/
theorem lockstep (s s' : Sim) (h : stepInner s = (.ok (), s')) : Sim.step s = (.ok (), s') := by
  unfold Sim.step; simp only [h]; cases s'.flags.realTraps <;> simp

/-- through a vector that is not x25/x100/x101/x102 the entry does not look at the flag -/
theorem other_vectors_same (s : Sim) (vect : W) (prio : Option Nat) (h : realIntVect vect = none) :
    handleInterrupt vect prio s = if s.gated prio then (.ok (), s) else enterSupervisor vect prio s := by
  rw [C08.handle_structure]
  cases s.flags.realTraps <;> simp only [h, Bool.not_false, Bool.not_true, if_true, Bool.false_eq_true, if_false]

/-- the I/O traps GETC, OUT, PUTS, IN, PUTSP are not virtualised -/
theorem io_traps_not_virtual :
    realIntVect 0x20 = none ∧ realIntVect 0x21 = none ∧ realIntVect 0x22 = none ∧ realIntVect 0x23 = none ∧
    realIntVect 0x24 = none := by decide

/-- virtual traps: HALT and the three exceptions stop the step with the corresponding break -/
theorem virtual_breaks (s : Sim) (vect : W) (brk : StepBreak) (hv : s.flags.realTraps = false)
    (hb : realIntVect vect = some brk) (hs : s.flags.strict = false) :
    (handleInterrupt vect none s).1 = .error brk ∧ (handleInterrupt vect none s).2.mem = s.mem ∧
    (handleInterrupt vect none s).2.regs = s.regs ∧ (handleInterrupt vect none s).2.prefetchPc = s.prefetchPc := by
  rw [C08.handle_structure]
  simp only [hv, hb, Bool.not_false, if_true, Bool.false_eq_true, if_false, gated]
  obtain ⟨h1, _, _, h4, h5, h6⟩ := C08.virtual_break_spec s brk hs
  exact ⟨h1, h5, h6, h4⟩

set_option maxRecDepth 100000 in
/-- on the current OS image the exception vectors point at handlers that print exactly these messages with PUTS and
    then execute HALT -/
theorem exception_handlers :
    C11.chkMsg (C11.vec 0x100) "\n--- Privilege violation ---" (.trap 0x25) = true ∧
    C11.chkMsg (C11.vec 0x101) "\n--- Illegal opcode ---" (.trap 0x25) = true ∧
    C11.chkMsg (C11.vec 0x102) "\n--- Access violation ---" (.trap 0x25) = true := by decide +kernel

/-- **one step**: a step that succeeds on the virtual-trap machine is the same step on the machine with real traps (same result,
    same registers, PC, PSR, memory, devices, frames, observer, counter) -/
theorem real_step_same (s s' : Sim) (hv : s.flags.realTraps = false) (h : Sim.step s = (.ok (), s')) :
    Sim.step (RT.rt s) = (.ok (), RT.rt s') := by
  have hr := RT.step_real_rel s hv
  rw [h] at hr
  obtain ⟨_, hrr⟩ := hr
  rcases hrr with ⟨e, _, he⟩ | hrr
  · cases he
  · exact hrr

/-- **whole executions**: as long as the virtual-trap machine has executed `n` steps without reaching HALT or an exception (or
    any other error), the real-trap machine has executed the same `n` steps and is in the same state — enabling real traps
    changes only what happens at HALT and at exceptions -/
theorem real_prefix_same (n : Nat) (s s' : Sim) (hv : s.flags.realTraps = false) (h : RT.okSteps n s = some s') :
    RT.okSteps n (RT.rt s) = some (RT.rt s') :=
  (RT.okSteps_real n s s' hv h).1

/-- the same for `run`, `run_with_limit`, `step_over`, `step_out`, `run_while`: a virtual-trap run that pauses (limit,
    breakpoint, tripwire, MCR) rather than halting or failing pauses in the same state under real traps -/
theorem real_run_same (tw : Tripwire) (fuel iter : Nat) (s s' : Sim) (p : Pause) (hv : s.flags.realTraps = false)
    (h : runLoop tw fuel iter s = some (.ok p, s')) (hp : p ≠ .halt) :
    runLoop tw fuel iter (RT.rt s) = some (.ok p, RT.rt s') := by
  have hr := RT.runLoop_real tw fuel iter s hv
  rw [h] at hr
  obtain ⟨_, hrr⟩ := hr
  rcases hrr with (hh | ⟨e, he⟩) | hrr
  · injection hh with hh; exact absurd hh hp
  · cases he
  · exact hrr

set_option maxRecDepth 100000 in
/-- the three exception vectors are defined and their messages end in a zero word inside the image -/
theorem exception_terms :
    (C11.osWord 0x100).isSome = true ∧ (C11.osWord 0x101).isSome = true ∧ (C11.osWord 0x102).isSome = true ∧
    Rt.chkMsgTerm (C11.vec 0x100) (C11.str "\n--- Privilege violation ---").length = true ∧
    Rt.chkMsgTerm (C11.vec 0x101) (C11.str "\n--- Illegal opcode ---").length = true ∧
    Rt.chkMsgTerm (C11.vec 0x102) (C11.str "\n--- Access violation ---").length = true ∧
    (C11.str "\n--- Privilege violation ---").length < 64 ∧ (C11.str "\n--- Illegal opcode ---").length < 64 ∧
    (C11.str "\n--- Access violation ---").length < 64 := by decide +kernel

/-- which OS vector and message belong to an exception -/
def excVector : SimErr → Option (Nat × String)
  | .privilegeViolation => some (0x100, "\n--- Privilege violation ---")
  | .illegalOpcode => some (0x101, "\n--- Illegal opcode ---")
  | .invalidInstrFormat => some (0x101, "\n--- Illegal opcode ---")
  | .accessViolation => some (0x102, "\n--- Access violation ---")
  | _ => none

/-- **exceptions under real traps.** If the inner step fails with a privilege, illegal-instruction or access
    exception in state `s'` and real traps are enabled there, then the public `step` enters the OS handler instead
    of reporting the error, and after finitely many further instructions the display has received exactly the OS
    message for that exception and the machine has halted through the OS (MCR bit clear), registers R1-R5 untouched -/
theorem real_exception_prints {Q : DevHandler → Prop} (QS : Rt.QuietSet Q) (s s' : Sim) (hq : Q s'.dev) (e : SimErr) (vect : Nat) (msg : String) (d' : DevHandler)
    (hin : stepInner s = (.error (.err e), s')) (hv : excVector e = some (vect, msg))
    (hr : s'.flags.realTraps = true) (hos : Rt.OsLoaded s') (hs : s'.flags.strict = false)
    (h1 : 767 ≤ (C10.entrySp s' - 1).toNat ∧ (C10.entrySp s' - 1).toNat < IO_START)
    (h2 : 767 ≤ (C10.entrySp s' - 2).toNat ∧ (C10.entrySp s' - 2).toNat < IO_START)
    (h3 : 767 ≤ (C10.entrySp s' - 3).toNat ∧ (C10.entrySp s' - 3).toNat < IO_START)
    (h4 : 767 ≤ (C10.entrySp s' - 4).toNat ∧ (C10.entrySp s' - 4).toNat < IO_START)
    (hc : Rt.CellsOk (C10.entrySp s' - 4))
    (l4 : s'.iregLookup 0xFE04 = none) (l6 : s'.iregLookup 0xFE06 = none) (lm : s'.iregLookup 0xFFFE = some .mcr)
    (hem : Rt.Emits s'.dev ((C11.str msg).map (BitVec.ofNat 16)) d') :
    ∃ k f, (Sim.step >>= fun _ => Rt.feN k) s = (.ok (), f) ∧ f.mcr = false ∧ f.dev = d' ∧
      (∀ r, r ≠ 0 → r ≠ 7 → r ≠ R6 → f.reg r = s'.reg r) := by
  obtain ⟨v0, v1, v2, t0, t1, t2, n0, n1, n2⟩ := exception_terms
  obtain ⟨c0, c1, c2⟩ := exception_handlers
  obtain ⟨q0, q1, q2, q3, q4⟩ := C08.real_trap_vectoring s s' hr
  have key : ∀ (vd : (C11.osWord vect).isSome = true) (hchk : C11.chkMsg (C11.vec vect) msg (.trap 0x25) = true)
      (hterm : Rt.chkMsgTerm (C11.vec vect) (C11.str msg).length = true) (hlen : (C11.str msg).length < 64)
      (hstep : Sim.step s = handleInterrupt (BitVec.ofNat 16 vect) none s'),
      ∃ k f, (Sim.step >>= fun _ => Rt.feN k) s = (.ok (), f) ∧ f.mcr = false ∧ f.dev = d' ∧
        (∀ r, r ≠ 0 → r ≠ 7 → r ≠ R6 → f.reg r = s'.reg r) := by
    intro vd hchk hterm hlen hstep
    obtain ⟨k, f, hf, rest⟩ := Rt.exception_prints QS s' hq vect msg d' hos hs hr vd hchk hterm hlen h1 h2 h3 h4 hc l4 l6 lm hem
    refine ⟨k, f, ?_, rest⟩
    rw [SimM.bind_apply, hstep]
    rw [SimM.bind_apply] at hf
    exact hf
  cases e <;> simp only [excVector, Option.some.injEq, Prod.mk.injEq, reduceCtorEq] at hv
  · obtain ⟨rfl, rfl⟩ := hv; exact key v1 c1 t1 n1 (q2 hin)
  · obtain ⟨rfl, rfl⟩ := hv; exact key v1 c1 t1 n1 (q3 hin)
  · obtain ⟨rfl, rfl⟩ := hv; exact key v0 c0 t0 n0 (q1 hin)
  · obtain ⟨rfl, rfl⟩ := hv; exact key v2 c2 t2 n2 (q4 hin)

/-- **HALT under real traps stops through the OS.** A `TRAP x25` fetched and executed with real traps enabled
    enters the OS routine, which clears the MCR bit (the run loop then stops: `Rt.mcr_off_stops`); R0-R5, the devices
    and all memory below the I/O page except the two supervisor-stack cells are untouched -/
theorem real_halt_through_os {Q : DevHandler → Prop} (QS : Rt.QuietSet Q) (s : Sim) (hq : Q s.dev) (hos : Rt.OsLoaded s) (hs : s.flags.strict = false)
    (hrt : s.flags.realTraps = true) (hat : Rt.AtTrap s 0x25)
    (h1 : 767 ≤ (C10.entrySp s - 1).toNat ∧ (C10.entrySp s - 1).toNat < IO_START)
    (h2 : 767 ≤ (C10.entrySp s - 2).toNat ∧ (C10.entrySp s - 2).toNat < IO_START)
    (hm : s.iregLookup 0xFFFE = some .mcr) :
    ∃ f, Rt.feN 3 s = (.ok (), f) ∧ f.mcr = false ∧ (∀ r, r ≠ 7 → r ≠ R6 → f.reg r = s.reg r) ∧ f.dev = s.dev ∧
      (∀ a : W, a.toNat < IO_START → a ≠ C10.entrySp s - 1 → a ≠ C10.entrySp s - 2 → f.memAt a = s.memAt a) :=
  Rt.halt_step QS s hq hos hs hrt hat h1 h2 hm

/-- `n` successful public steps, as a `SimM` computation and as `okSteps` -/
theorem feN_okSteps : ∀ (n : Nat) (s s' : Sim), RT.okSteps n s = some s' → Rt.feN n s = (.ok (), s') := by
  intro n
  induction n with
  | zero => intro s s' h; simp only [RT.okSteps, Option.some.injEq] at h; subst h; rfl
  | succ n ih =>
    intro s s' h
    unfold RT.okSteps at h
    generalize hr : Sim.step s = r at h
    rcases r with ⟨_ | _, t⟩
    · simp at h
    · rw [Rt.feN_succ n hr]; exact ih t s' h

/-- **virtual HALT**: with virtual traps a `TRAP x25` fetched from plain memory stops the step with the halt break;
    registers, memory and devices are as before the step and the PC is back on the TRAP -/
theorem virtual_halt_step (s : Sim) (hq : Rt.QuietDev s) (hv : s.flags.realTraps = false) (hs : s.flags.strict = false)
    (hat : Rt.AtTrap s 0x25) :
    ∃ t, Sim.step s = (.error .halt, t) ∧ t.regs = s.regs ∧ t.mem = s.mem ∧ t.dev = s.dev := by
  have hfe : fetchExec s = (virtualBreak .halt (Rt.fetched s)) := by
    rw [Rt.fetchExec_plain s _ hs hat.perm hat.plain hat.instr, C08.exec_trap, C08.handle_structure]
    have hvf : (Rt.fetched s).flags.realTraps = false := hv
    simp only [gated, Bool.false_eq_true, if_false, hvf, Bool.not_false, if_true]
    have : realIntVect (BitVec.setWidth 16 (0x25 : BitVec 8)) = some .halt := by decide
    rw [this]
    simp only []
    obtain ⟨h1, _⟩ := C08.virtual_break_spec (Rt.fetched s) .halt hs
    generalize virtualBreak .halt (Rt.fetched s) = r at h1 ⊢
    rcases r with ⟨_ | _, _⟩
    · rfl
    · cases h1
  obtain ⟨h1, _, _, _, h5, h6⟩ := C08.virtual_break_spec (Rt.fetched s) .halt hs
  have hst : stepInner s = virtualBreak .halt (Rt.fetched s) := by
    have h1' : stepInner s = fetchExec (afterPoll s) := by unfold stepInner; rw [hq]
    have h2 : fetchExec (afterPoll s) = fetchExec s := by
      rw [Rt.fetchExec_plain (afterPoll s) _ hs hat.perm hat.plain hat.instr, Rt.fetchExec_plain s _ hs hat.perm hat.plain hat.instr]
      have : Rt.fetched (afterPoll s) = Rt.fetched s := by
        unfold Rt.fetched afterPoll; rw [hq]; rfl
      rw [this]
    rw [h1', h2, hfe]
  refine ⟨(virtualBreak .halt (Rt.fetched s)).2, ?_, h6, h5, ?_⟩
  · unfold Sim.step
    rw [hst]
    have hfl : (virtualBreak .halt (Rt.fetched s)).2.flags.realTraps = false := by
      unfold virtualBreak
      cases hp : (Rt.fetched s).prefetch
      · simp only [SimM.bind_apply, SimM.getS_apply, hp, Bool.not_false, if_true, offsetPc]
        rw [Sim.setPc_nonstrict _ _ _ (show (Rt.fetched s).flags.strict = false from hs)]
        simp only [SimM.modifyS_apply, SimM.throwB_apply]
        exact hv
      · simp only [SimM.bind_apply, SimM.getS_apply, hp, Bool.not_true, Bool.false_eq_true, if_false, SimM.throwB_apply]
        exact hv
    generalize virtualBreak .halt (Rt.fetched s) = r at h1 hfl ⊢
    rcases r with ⟨r, t⟩
    simp only at h1 hfl
    subst h1
    simp only [hfl, Bool.not_false, if_true]
  · unfold virtualBreak
    cases hp : (Rt.fetched s).prefetch
    · simp only [SimM.bind_apply, SimM.getS_apply, hp, Bool.not_false, if_true, offsetPc]
      rw [Sim.setPc_nonstrict _ _ _ (show (Rt.fetched s).flags.strict = false from hs)]
      simp only [SimM.modifyS_apply, SimM.throwB_apply]
      rfl
    · simp only [SimM.bind_apply, SimM.getS_apply, hp, Bool.not_true, Bool.false_eq_true, if_false, SimM.throwB_apply]
      rfl

/-- **a halting program, end to end.**  Suppose the virtual-trap machine executes `n` instructions from `s` without
    error and then stands at a `TRAP x25` (state `s'`; there the virtual machine stops with the halt break, registers,
    memory and devices as in `s'`).  Then the same machine with real traps enabled executes the same `n` instructions,
    is in the same state, and three more public steps (the TRAP and the OS routine) later the MCR bit is clear — the
    run loop stops — with R0-R5 and the devices as in `s'` and all memory below the I/O page as in `s'` except the two
    supervisor-stack cells -/
theorem halting_program {Q : DevHandler → Prop} (QS : Rt.QuietSet Q) (n : Nat) (s s' : Sim)
    (hv : s.flags.realTraps = false) (hrun : RT.okSteps n s = some s')
    (hq : Q s'.dev) (hos : Rt.OsLoaded s') (hs : s'.flags.strict = false) (hat : Rt.AtTrap s' 0x25)
    (h1 : 767 ≤ (C10.entrySp s' - 1).toNat ∧ (C10.entrySp s' - 1).toNat < IO_START)
    (h2 : 767 ≤ (C10.entrySp s' - 2).toNat ∧ (C10.entrySp s' - 2).toNat < IO_START)
    (hm : s'.iregLookup 0xFFFE = some .mcr) :
    (∃ t, Sim.step s' = (.error .halt, t) ∧ t.regs = s'.regs ∧ t.mem = s'.mem ∧ t.dev = s'.dev) ∧
    ∃ f, Rt.feN (n + 3) (RT.rt s) = (.ok (), f) ∧ f.mcr = false ∧ (∀ r, r ≠ 7 → r ≠ R6 → f.reg r = s'.reg r) ∧
      f.dev = s'.dev ∧
      (∀ a : W, a.toNat < IO_START → a ≠ C10.entrySp s' - 1 → a ≠ C10.entrySp s' - 2 → f.memAt a = s'.memAt a) := by
  obtain ⟨hpre, hv'⟩ := RT.okSteps_real n s s' hv hrun
  refine ⟨virtual_halt_step s' (QS.dev hq) hv' hs hat, ?_⟩
  have hat' : Rt.AtTrap (RT.rt s') 0x25 := ⟨hat.perm, hat.plain, hat.instr⟩
  obtain ⟨f, hf, a1, a2, a3, a4⟩ := Rt.halt_step QS (RT.rt s') hq hos hs rfl hat' h1 h2 hm
  refine ⟨f, ?_, a1, a2, a3, a4⟩
  rw [Rt.feN_add n 3 (feN_okSteps n _ _ hpre)]
  exact hf

/-- **a faulting program, end to end.**  Suppose the virtual-trap machine executes `n` instructions from `s` without
    error and then its next instruction fails with a privilege, illegal-instruction or access exception (inner step
    fails in state `s''`; no interrupt pending).  Then the same machine with real traps enabled executes the same `n`
    instructions, reaches the same state, fails the same inner step in the same way, enters the OS handler instead of
    reporting the error, and finitely many instructions later the display has received exactly the OS message for
    that exception and the machine has halted through the OS (MCR clear), R1-R5 as at the fault -/
theorem excepting_program {Q : DevHandler → Prop} (QS : Rt.QuietSet Q) (n : Nat) (s s' s'' : Sim) (e : SimErr)
    (vect : Nat) (msg : String) (d' : DevHandler)
    (hv : s.flags.realTraps = false) (hrun : RT.okSteps n s = some s')
    (hpoll : s'.dev.pollInterrupt = (none, s'.dev))
    (hin : stepInner s' = (.error (.err e), s'')) (hvec : excVector e = some (vect, msg))
    (hq : Q s''.dev) (hos : Rt.OsLoaded s'') (hs : s''.flags.strict = false)
    (h1 : 767 ≤ (C10.entrySp s'' - 1).toNat ∧ (C10.entrySp s'' - 1).toNat < IO_START)
    (h2 : 767 ≤ (C10.entrySp s'' - 2).toNat ∧ (C10.entrySp s'' - 2).toNat < IO_START)
    (h3 : 767 ≤ (C10.entrySp s'' - 3).toNat ∧ (C10.entrySp s'' - 3).toNat < IO_START)
    (h4 : 767 ≤ (C10.entrySp s'' - 4).toNat ∧ (C10.entrySp s'' - 4).toNat < IO_START)
    (hc : Rt.CellsOk (C10.entrySp s'' - 4))
    (l4 : s''.iregLookup 0xFE04 = none) (l6 : s''.iregLookup 0xFE06 = none) (lm : s''.iregLookup 0xFFFE = some .mcr)
    (hem : Rt.Emits s''.dev ((C11.str msg).map (BitVec.ofNat 16)) d') :
    Sim.step s' = (.error (.err e), s'') ∧
    ∃ k f, Rt.feN (n + (k + 1)) (RT.rt s) = (.ok (), f) ∧ f.mcr = false ∧ f.dev = d' ∧
      (∀ r, r ≠ 0 → r ≠ 7 → r ≠ R6 → f.reg r = s''.reg r) := by
  obtain ⟨hpre, hv'⟩ := RT.okSteps_real n s s' hv hrun
  obtain ⟨hin', hv''⟩ := RT.stepInner_exception_same s' s'' e hv' hpoll hin
  constructor
  · unfold Sim.step
    rw [hin]
    simp only [hv'', Bool.not_false, if_true]
  · obtain ⟨k, f, hf, a1, a2, a3⟩ := real_exception_prints QS (RT.rt s') (RT.rt s'') hq e vect msg d' hin' hvec rfl hos hs h1 h2 h3 h4 hc l4 l6 lm hem
    refine ⟨k, f, ?_, a1, a2, a3⟩
    rw [Rt.feN_add n (k + 1) (feN_okSteps n _ _ hpre)]
    exact hf

def obligations : List Lean.Name :=
  [``lockstep, ``other_vectors_same, ``io_traps_not_virtual, ``virtual_breaks, ``exception_handlers,
   ``RT.step_real_rel, ``RT.okSteps_real, ``RT.runLoop_real, ``real_step_same, ``real_prefix_same, ``real_run_same,
   ``exception_terms, ``Rt.msg_handler, ``Rt.exception_prints, ``real_exception_prints, ``real_halt_through_os,
   ``feN_okSteps, ``virtual_halt_step, ``halting_program,
   ``RT.stepInner_quiet, ``RT.stepInner_exception_same, ``excepting_program]

end Lc3V.C12
