/-
  C12 — Real and virtual traps agree except at HALT and exceptions.
  The `use_real_traps` flag is consulted in exactly two places: `handle_interrupt` (only for the vectors x25, x100,
  x101, x102) and the `step` wrapper (only when the inner step broke with halt or one of the three exceptions).
  Proved for every state: (`lockstep`) a step whose inner step succeeds is the same step under both settings; a TRAP or
  interrupt through any other vector enters the supervisor identically under both settings
  (`other_vectors_same`); under virtual traps HALT / exceptions stop with the break, under real traps they become
  supervisor entries at the OS vectors (C08.real_trap_vectoring); and on the current (regenerated) OS image those
  vectors point at handlers that print exactly the message for that exception with PUTS and then HALT
  (`exception_handlers`), HALT being the MCR-clearing loop (C11.halt_listing).
  Session 5: (`real_step_same`, `real_prefix_same`, `real_run_same`, Lemmas/RealRel) as long as the virtual-trap run
  has not reached HALT or an exception the real-trap run is in the same state; at HALT (`real_halt_through_os`) the
  OS routine clears MCR and nothing else a user program can observe changes; at an exception
  (`real_exception_prints`, Lemmas/OsExc) `step` enters the handler, the display receives exactly the OS message for
  that exception and the machine halts through the OS.  These use C11's routine contracts (PUTS, HALT), hence their
  hypotheses (OS loaded, non-strict, supervisor stack in plain memory, quiet poll at the instruction boundaries).
  The concatenation of prefix + final segment into one `run` statement is checked end-to-end by the correspondence
  oracle (paired virtual/real runs).
-/
import Lc3V.Props.C11
import Lc3V.Lemmas.RealRel
import Lc3V.Lemmas.OsExc
namespace Lc3V.C12
open Lc3V Sim SimM

def withReal (s : Sim) (b : Bool) : Sim := { s with flags := { s.flags with realTraps := b } }

/-- a step whose inner part succeeds is not affected by the wrapper, whatever the flag -/
theorem lockstep (s s' : Sim) (h : stepInner s = (.ok (), s')) : Sim.step s = (.ok (), s') := by
  unfold Sim.step; simp only [h]; cases s'.flags.realTraps <;> simp

/-- through a vector that is not x25/x100/x101/x102 the entry does not look at the flag -/
theorem other_vectors_same (s : Sim) (vect : W) (prio : Option Nat) (h : realIntVect vect = none) :
    handleInterrupt vect prio s = if s.gated prio then (.ok (), s) else enterSupervisor vect prio s := by
  rw [C08.handle_structure]
  cases s.flags.realTraps <;> simp only [h, Bool.not_false, Bool.not_true, if_true, Bool.false_eq_true, if_false]

/-- the I/O traps GETC, OUT, PUTS, IN, PUTSP are not virtualised -/
theorem io_traps_not_virtual :
    realIntVect 0x20 = none ∧ realIntVect 0x21 = none ∧ realIntVect 0x22 = none ∧ realIntVect 0x23 = none ∧
    realIntVect 0x24 = none := by decide

/-- virtual traps: HALT and the three exceptions stop the step with the corresponding break -/
theorem virtual_breaks (s : Sim) (vect : W) (brk : StepBreak) (hv : s.flags.realTraps = false)
    (hb : realIntVect vect = some brk) (hs : s.flags.strict = false) :
    (handleInterrupt vect none s).1 = .error brk ∧ (handleInterrupt vect none s).2.mem = s.mem ∧
    (handleInterrupt vect none s).2.regs = s.regs ∧ (handleInterrupt vect none s).2.prefetchPc = s.prefetchPc := by
  rw [C08.handle_structure]
  simp only [hv, hb, Bool.not_false, if_true, Bool.false_eq_true, if_false, gated]
  obtain ⟨h1, _, _, h4, h5, h6⟩ := C08.virtual_break_spec s brk hs
  exact ⟨h1, h5, h6, h4⟩

set_option maxRecDepth 100000 in
/-- on the current OS image the exception vectors point at handlers that print exactly these messages with PUTS and
    then execute HALT -/
theorem exception_handlers :
    C11.chkMsg (C11.vec 0x100) "\n--- Privilege violation ---" (.trap 0x25) = true ∧
    C11.chkMsg (C11.vec 0x101) "\n--- Illegal opcode ---" (.trap 0x25) = true ∧
    C11.chkMsg (C11.vec 0x102) "\n--- Access violation ---" (.trap 0x25) = true := by decide +kernel

/-- **one step**: a step that succeeds on the virtual-trap machine is the same step on the machine with real traps (same result,
    same registers, PC, PSR, memory, devices, frames, observer, counter) -/
theorem real_step_same (s s' : Sim) (hv : s.flags.realTraps = false) (h : Sim.step s = (.ok (), s')) :
    Sim.step (RT.rt s) = (.ok (), RT.rt s') := by
  have hr := RT.step_real_rel s hv
  rw [h] at hr
  obtain ⟨_, hrr⟩ := hr
  rcases hrr with ⟨e, he⟩ | hrr
  · cases he
  · exact hrr

/-- **whole executions**: as long as the virtual-trap machine has executed `n` steps without reaching HALT or an exception (or
    any other error), the real-trap machine has executed the same `n` steps and is in the same state — enabling real traps
    changes only what happens at HALT and at exceptions -/
theorem real_prefix_same (n : Nat) (s s' : Sim) (hv : s.flags.realTraps = false) (h : RT.okSteps n s = some s') :
    RT.okSteps n (RT.rt s) = some (RT.rt s') :=
  (RT.okSteps_real n s s' hv h).1

/-- the same for `run`, `run_with_limit`, `step_over`, `step_out`, `run_while`: a virtual-trap run that pauses (limit,
    breakpoint, tripwire, MCR) rather than halting or failing pauses in the same state under real traps -/
theorem real_run_same (tw : Tripwire) (fuel iter : Nat) (s s' : Sim) (p : Pause) (hv : s.flags.realTraps = false)
    (h : runLoop tw fuel iter s = some (.ok p, s')) (hp : p ≠ .halt) :
    runLoop tw fuel iter (RT.rt s) = some (.ok p, RT.rt s') := by
  have hr := RT.runLoop_real tw fuel iter s hv
  rw [h] at hr
  obtain ⟨_, hrr⟩ := hr
  rcases hrr with (hh | ⟨e, he⟩) | hrr
  · injection hh with hh; exact absurd hh hp
  · cases he
  · exact hrr

set_option maxRecDepth 100000 in
/-- the three exception vectors are defined and their messages end in a zero word inside the image -/
theorem exception_terms :
    (C11.osWord 0x100).isSome = true ∧ (C11.osWord 0x101).isSome = true ∧ (C11.osWord 0x102).isSome = true ∧
    Rt.chkMsgTerm (C11.vec 0x100) (C11.str "\n--- Privilege violation ---").length = true ∧
    Rt.chkMsgTerm (C11.vec 0x101) (C11.str "\n--- Illegal opcode ---").length = true ∧
    Rt.chkMsgTerm (C11.vec 0x102) (C11.str "\n--- Access violation ---").length = true ∧
    (C11.str "\n--- Privilege violation ---").length < 64 ∧ (C11.str "\n--- Illegal opcode ---").length < 64 ∧
    (C11.str "\n--- Access violation ---").length < 64 := by decide +kernel

/-- which OS vector and message belong to an exception -/
def excVector : SimErr → Option (Nat × String)
  | .privilegeViolation => some (0x100, "\n--- Privilege violation ---")
  | .illegalOpcode => some (0x101, "\n--- Illegal opcode ---")
  | .invalidInstrFormat => some (0x101, "\n--- Illegal opcode ---")
  | .accessViolation => some (0x102, "\n--- Access violation ---")
  | _ => none

/-- **exceptions under real traps.** If the inner step fails with a privilege, illegal-instruction or access
    exception in state `s'` and real traps are enabled there, then the public `step` enters the OS handler instead
    of reporting the error, and after finitely many further instructions the display has received exactly the OS
    message for that exception and the machine has halted through the OS (MCR bit clear), registers R1-R5 untouched -/
theorem real_exception_prints (s s' : Sim) (e : SimErr) (vect : Nat) (msg : String) (d' : DevHandler)
    (hin : stepInner s = (.error (.err e), s')) (hv : excVector e = some (vect, msg))
    (hr : s'.flags.realTraps = true) (hos : Rt.OsLoaded s') (hs : s'.flags.strict = false)
    (h1 : 767 ≤ (C10.entrySp s' - 1).toNat ∧ (C10.entrySp s' - 1).toNat < IO_START)
    (h2 : 767 ≤ (C10.entrySp s' - 2).toNat ∧ (C10.entrySp s' - 2).toNat < IO_START)
    (h3 : 767 ≤ (C10.entrySp s' - 3).toNat ∧ (C10.entrySp s' - 3).toNat < IO_START)
    (h4 : 767 ≤ (C10.entrySp s' - 4).toNat ∧ (C10.entrySp s' - 4).toNat < IO_START)
    (hc : Rt.CellsOk (C10.entrySp s' - 4))
    (l4 : s'.iregLookup 0xFE04 = none) (l6 : s'.iregLookup 0xFE06 = none) (lm : s'.iregLookup 0xFFFE = some .mcr)
    (hem : Rt.Emits s'.dev ((C11.str msg).map (BitVec.ofNat 16)) d') :
    ∃ k f, (Sim.step >>= fun _ => Rt.feN k) s = (.ok (), f) ∧ f.mcr = false ∧ f.dev = d' ∧
      (∀ r, r ≠ 0 → r ≠ 7 → r ≠ R6 → f.reg r = s'.reg r) := by
  obtain ⟨v0, v1, v2, t0, t1, t2, n0, n1, n2⟩ := exception_terms
  obtain ⟨c0, c1, c2⟩ := exception_handlers
  obtain ⟨q0, q1, q2, q3, q4⟩ := C08.real_trap_vectoring s s' hr
  have key : ∀ (vd : (C11.osWord vect).isSome = true) (hchk : C11.chkMsg (C11.vec vect) msg (.trap 0x25) = true)
      (hterm : Rt.chkMsgTerm (C11.vec vect) (C11.str msg).length = true) (hlen : (C11.str msg).length < 64)
      (hstep : Sim.step s = handleInterrupt (BitVec.ofNat 16 vect) none s'),
      ∃ k f, (Sim.step >>= fun _ => Rt.feN k) s = (.ok (), f) ∧ f.mcr = false ∧ f.dev = d' ∧
        (∀ r, r ≠ 0 → r ≠ 7 → r ≠ R6 → f.reg r = s'.reg r) := by
    intro vd hchk hterm hlen hstep
    obtain ⟨k, f, hf, rest⟩ := Rt.exception_prints s' vect msg d' hos hs hr vd hchk hterm hlen h1 h2 h3 h4 hc l4 l6 lm hem
    refine ⟨k, f, ?_, rest⟩
    rw [SimM.bind_apply, hstep]
    rw [SimM.bind_apply] at hf
    exact hf
  cases e <;> simp only [excVector, Option.some.injEq, Prod.mk.injEq, reduceCtorEq] at hv
  · obtain ⟨rfl, rfl⟩ := hv; exact key v1 c1 t1 n1 (q2 hin)
  · obtain ⟨rfl, rfl⟩ := hv; exact key v1 c1 t1 n1 (q3 hin)
  · obtain ⟨rfl, rfl⟩ := hv; exact key v0 c0 t0 n0 (q1 hin)
  · obtain ⟨rfl, rfl⟩ := hv; exact key v2 c2 t2 n2 (q4 hin)

/-- **HALT under real traps stops through the OS.** A `TRAP x25` fetched and executed with real traps enabled
    enters the OS routine, which clears the MCR bit (the run loop then stops: `Rt.mcr_off_stops`); R0-R5, the devices
    and all memory below the I/O page except the two supervisor-stack cells are untouched -/
theorem real_halt_through_os (s : Sim) (hos : Rt.OsLoaded s) (hs : s.flags.strict = false)
    (hrt : s.flags.realTraps = true) (hat : Rt.AtTrap s 0x25)
    (h1 : 767 ≤ (C10.entrySp s - 1).toNat ∧ (C10.entrySp s - 1).toNat < IO_START)
    (h2 : 767 ≤ (C10.entrySp s - 2).toNat ∧ (C10.entrySp s - 2).toNat < IO_START)
    (hm : s.iregLookup 0xFFFE = some .mcr) :
    ∃ f, Rt.feN 3 s = (.ok (), f) ∧ f.mcr = false ∧ (∀ r, r ≠ 7 → r ≠ R6 → f.reg r = s.reg r) ∧ f.dev = s.dev ∧
      (∀ a : W, a.toNat < IO_START → a ≠ C10.entrySp s - 1 → a ≠ C10.entrySp s - 2 → f.memAt a = s.memAt a) :=
  Rt.halt_step s hos hs hrt hat h1 h2 hm

def obligations : List Lean.Name :=
  [``lockstep, ``other_vectors_same, ``io_traps_not_virtual, ``virtual_breaks, ``exception_handlers,
   ``RT.step_real_rel, ``RT.okSteps_real, ``RT.runLoop_real, ``real_step_same, ``real_prefix_same, ``real_run_same,
   ``exception_terms, ``Rt.msg_handler, ``Rt.exception_prints, ``real_exception_prints, ``real_halt_through_os]

end Lc3V.C12
