/-
  C13 — Run, step-over, step-out and pauses equal repeated single steps.
  `runLoop tw fuel iter s` is the event loop of `run_while`: it is *defined* by the iteration
      MCR off?  →  tripwire false?  →  one `step`  →  breakpoint hit?  →  again
  (`loop_unfold`), so the instructions executed are exactly those of repeated single steps and the stop order is the
  documented one: MCR check first (so a cleared MCR lets at most the current iteration's step complete), then the
  tripwire, then the step (halt / error stop there), then breakpoints (a breakpoint is only tested after an executed
  instruction).  `fuel` is the usual device for an unbounded loop: theorems hold for all fuel, and results are stable
  under more fuel (`fuel_mono`), so nothing is bounded.
  Proved: a run *is* a chain of single steps (`run_is_chain_of_steps` and its converse `chain_of_steps_is_run`: whenever the
  loop returns it has made n continuing single steps — MCR on, tripwire true, normal return, no breakpoint — and one stopping
  iteration whose reason is the first applicable of MCR off / tripwire / HALT / error / breakpoint; for every pure tripwire,
  i.e. all public entry points); stop order; fuel monotonicity; step_over / step_out execute at least one step and stop at the first boundary
  where the depth is back to / below the start (tripwire semantics); step_out at depth 0 executes nothing;
  run_with_limit never starts an instruction once `max` have been counted; **splitting**: a limit run of a+b equals a
  limit run of a (paused by the tripwire) continued with the same total limit — for all programs, states, a, b.
-/
import Lc3V.Props.C08
namespace Lc3V.C13
open Lc3V Sim SimM

/-- one iteration of the event loop, in the order the code performs its checks -/
theorem loop_unfold (tw : Tripwire) (fuel iter : Nat) (s : Sim) :
    runLoop tw (fuel + 1) iter s =
      if !s.mcr then some (.ok .mcrOff, s)
      else
        let r := tripwireEval tw iter s
        if !r.1 then some (.ok .tripwire, r.2)
        else match step r.2 with
          | (.error .halt, s') => some (.ok .halt, s')
          | (.error (.err e), s') => some (.error e, s')
          | (.ok _, s') =>
            if s'.breakpoints.any (bpCheck s') then some (.ok .breakpoint, s')
            else runLoop tw fuel (iter + 1) s' := rfl

/-- MCR cleared before an iteration: the loop stops there without executing anything -/
theorem mcr_off_stops (tw : Tripwire) (fuel iter : Nat) (s : Sim) (h : s.mcr = false) :
    runLoop tw (fuel + 1) iter s = some (.ok .mcrOff, s) := by
  rw [loop_unfold]; simp [h]

/-- a result, once obtained, is stable under more fuel (so "for all fuel" statements are about the real loop) -/
theorem fuel_mono (tw : Tripwire) (fuel iter : Nat) (s : Sim) (r : Except SimErr Pause × Sim)
    (h : runLoop tw fuel iter s = some r) : runLoop tw (fuel + 1) iter s = some r := by
  induction fuel generalizing iter s with
  | zero => simp [runLoop] at h
  | succ fuel ih =>
    rw [loop_unfold] at h ⊢
    cases hm : s.mcr with
    | false => simp only [hm, Bool.not_false, if_true] at h ⊢; exact h
    | true =>
      simp only [hm, Bool.not_true, Bool.false_eq_true, if_false] at h ⊢
      cases ht : (tripwireEval tw iter s).1 with
      | false => simp only [ht, Bool.not_false, if_true] at h ⊢; exact h
      | true =>
        simp only [ht, Bool.not_true, Bool.false_eq_true, if_false] at h ⊢
        cases hs : Sim.step (tripwireEval tw iter s).2 with
        | mk res s' =>
          rw [hs] at h
          cases res with
          | error e => cases e <;> exact h
          | ok u =>
            simp only at h ⊢
            cases hb : s'.breakpoints.any (bpCheck s') with
            | true => simp only [hb, if_true] at h ⊢; exact h
            | false => simp only [hb, Bool.false_eq_true, if_false] at h ⊢; exact ih _ _ h

/-- the limit tripwire stops *before* an instruction once `max` have been counted: nothing more is executed -/
theorem limit_reached_stops (start max fuel iter : Nat) (s : Sim) (hm : s.mcr = true)
    (h : ¬ (s.instrRun + 2 ^ 64 - start) % 2 ^ 64 < max) :
    runLoop (.limit start max) (fuel + 1) iter s = some (.ok .tripwire, s) := by
  rw [loop_unfold]; simp [hm, tripwireEval, h]

/-- step_over / step_out always execute the first instruction (their tripwire is true on the first iteration) -/
theorem first_step_always (curr : Nat) (s : Sim) :
    (tripwireEval (.over curr) 1 s).1 = true ∧ (tripwireEval (.out curr) 1 s).1 = true := by
  simp [tripwireEval]

/-- after the first instruction step_over continues exactly while the depth is above the starting depth,
    step_out while it is at or above it -/
theorem over_out_condition (curr iter : Nat) (s : Sim) (hi : iter ≠ 1) :
    ((tripwireEval (.over curr) iter s).1 = true ↔ curr < s.frameNo) ∧
    ((tripwireEval (.out curr) iter s).1 = true ↔ curr ≤ s.frameNo) := by
  simp [tripwireEval, hi]

/-- step_out at depth 0 executes nothing -/
theorem step_out_at_depth_zero (fuel : Nat) (s : Sim) (h : s.frameNo = 0) : stepOut fuel s = some (.ok (), s) := by
  simp [stepOut, h]

/-- **splitting** (loop level): if a limit run of `a` pauses at the tripwire in state s1, then the run with limit
    `a + b` from the same start passes through s1: from there it continues exactly as the `a + b` run from s1.
    Together with `fuel_mono` this gives "any number of paused and resumed segments = one unbroken run". -/
theorem limit_split (start a b : Nat) (fuel iter : Nat) (s s1 : Sim)
    (h : runLoop (.limit start a) fuel iter s = some (.ok .tripwire, s1)) :
    ∃ iter1 fuel1, fuel1 ≤ fuel ∧
      runLoop (.limit start (a + b)) fuel iter s = runLoop (.limit start (a + b)) fuel1 iter1 s1 := by
  induction fuel generalizing iter s with
  | zero => simp [runLoop] at h
  | succ fuel ih =>
    rw [loop_unfold] at h
    cases hm : s.mcr with
    | false => simp [hm] at h
    | true =>
      simp only [hm, Bool.not_true, Bool.false_eq_true, if_false] at h
      by_cases ht : (s.instrRun + 2 ^ 64 - start) % 2 ^ 64 < a
      · -- the shorter run continues, so does the longer one, identically
        have hta : (tripwireEval (.limit start a) iter s) = (true, s) := by simp [tripwireEval, ht]
        have htb : (tripwireEval (.limit start (a + b)) iter s) = (true, s) := by
          simp [tripwireEval]; omega
        rw [hta] at h
        simp only [Bool.not_true, Bool.false_eq_true, if_false] at h
        rw [loop_unfold]
        simp only [hm, htb, Bool.not_true, Bool.false_eq_true, if_false]
        cases hs : Sim.step s with
        | mk res s' =>
          rw [hs] at h
          cases res with
          | error e => cases e <;> simp at h
          | ok u =>
            simp only at h ⊢
            cases hb : s'.breakpoints.any (bpCheck s') with
            | true => simp [hb] at h
            | false =>
              simp only [hb, Bool.false_eq_true, if_false] at h ⊢
              obtain ⟨i1, f1, hf, he⟩ := ih _ _ h
              exact ⟨i1, f1, by omega, he⟩
      · -- the shorter run pauses here: s1 = s
        have hta : (tripwireEval (.limit start a) iter s) = (false, s) := by simp [tripwireEval, ht]
        rw [hta] at h
        simp only [Bool.not_false, if_true, Option.some.injEq, Prod.mk.injEq, true_and] at h
        subst h
        exact ⟨iter, fuel + 1, Nat.le_refl _, rfl⟩

/-- `Comparator::check` is the comparator table -/
theorem comparator_table (x r : W) :
    Comparator.check .never x = false ∧ Comparator.check .always x = true ∧
    (Comparator.check (.lt r) x = true ↔ x.toNat < r.toNat) ∧ (Comparator.check (.le r) x = true ↔ x.toNat ≤ r.toNat) ∧
    (Comparator.check (.gt r) x = true ↔ x.toNat > r.toNat) ∧ (Comparator.check (.ge r) x = true ↔ x.toNat ≥ r.toNat) ∧
    (Comparator.check (.eq r) x = true ↔ x = r) ∧ (Comparator.check (.ne r) x = true ↔ x ≠ r) := by
  simp [Comparator.check]

/-- breakpoints look at the PC, a register's data, or a raw memory cell (no I/O side effects) -/
theorem bp_check_spec (s : Sim) (a : W) (r : Reg) (c : Comparator) :
    (bpCheck s (.pc a) = true ↔ s.pc = a) ∧ bpCheck s (.reg r c) = c.check (s.reg r).data ∧
    bpCheck s (.mem a c) = c.check (s.memAt a).data := by
  refine ⟨?_, rfl, rfl⟩
  simp [bpCheck]; exact eq_comm

/-- run-style calls leave MCR cleared and record why they paused -/
theorem runWhile_epilogue (tw : Tripwire) (fuel : Nat) (s s' : Sim) (r : RunRes) (h : runWhile tw fuel s = some (r, s')) :
    s'.mcr = false := by
  unfold runWhile at h
  simp only at h
  cases hr : runLoop tw fuel 1 { s with observer := {}, log := [], pause := .unsuccessful, mcr := true } with
  | none => rw [hr] at h; cases h
  | some x =>
    rw [hr] at h
    obtain ⟨res, s2⟩ := x
    cases res <;> (simp only [Option.some.injEq, Prod.mk.injEq] at h; obtain ⟨_, rfl⟩ := h; rfl)

/-! ### a run is exactly a chain of single steps -/

/-- tripwires that only look at the machine (all the public ones) -/
def PureTw (tw : Tripwire) : Prop := ∀ iter s, (tripwireEval tw iter s).2 = s

theorem pure_public (start max curr : Nat) : PureTw .always ∧ PureTw (.limit start max) ∧ PureTw (.over curr) ∧ PureTw (.out curr) :=
  ⟨fun _ _ => rfl, fun _ _ => rfl, fun _ _ => rfl, fun _ _ => rfl⟩

/-- one iteration that continues: MCR on, tripwire true, the single step returns normally, no breakpoint matches afterwards -/
def Cont (tw : Tripwire) (iter : Nat) (s s1 : Sim) : Prop :=
  s.mcr = true ∧ (tripwireEval tw iter s).1 = true ∧ step s = (.ok (), s1) ∧ s1.breakpoints.any (bpCheck s1) = false

/-- `n` continuing iterations in a row -/
def Chain (tw : Tripwire) : Nat → Nat → Sim → Sim → Prop
  | 0, _, s, sn => s = sn
  | n + 1, iter, s, sn => ∃ s1, Cont tw iter s s1 ∧ Chain tw n (iter + 1) s1 sn

/-- the iteration that stops the loop, and why -/
def Stop (tw : Tripwire) (iter : Nat) (sn : Sim) (res : Except SimErr Pause) (s' : Sim) : Prop :=
  (sn.mcr = false ∧ res = .ok .mcrOff ∧ s' = sn) ∨
  (sn.mcr = true ∧ (tripwireEval tw iter sn).1 = false ∧ res = .ok .tripwire ∧ s' = sn) ∨
  (sn.mcr = true ∧ (tripwireEval tw iter sn).1 = true ∧
    ((step sn = (.error .halt, s') ∧ res = .ok .halt) ∨
     (∃ e, step sn = (.error (.err e), s') ∧ res = .error e) ∨
     (step sn = (.ok (), s') ∧ s'.breakpoints.any (bpCheck s') = true ∧ res = .ok .breakpoint)))

/-- **a run executes exactly the instructions repeated single steps would** (any pure tripwire): whenever the loop returns,
    it has made some number `n` of continuing single steps — each with the MCR on, the tripwire true, a normal return and no
    breakpoint hit — followed by one stopping iteration, whose reason is the first of: MCR off, tripwire false, HALT, an
    error, a breakpoint after an executed instruction -/
theorem run_is_chain_of_steps (tw : Tripwire) (hp : PureTw tw) : ∀ (fuel iter : Nat) (s : Sim) (res : Except SimErr Pause) (s' : Sim),
    runLoop tw fuel iter s = some (res, s') → ∃ n sn, Chain tw n iter s sn ∧ Stop tw (iter + n) sn res s' := by
  intro fuel
  induction fuel with
  | zero => intro iter s res s' h; simp [runLoop] at h
  | succ f ih =>
    intro iter s res s' h
    unfold runLoop at h
    by_cases hm : s.mcr = true
    · simp only [hm, Bool.not_true, Bool.false_eq_true, if_false] at h
      have hpure := hp iter s
      rcases hte : tripwireEval tw iter s with ⟨go, s1⟩
      rw [hte] at h hpure
      simp only at h hpure
      subst hpure
      cases go with
      | false =>
        simp only [Bool.not_false, if_true, Option.some.injEq, Prod.mk.injEq] at h
        exact ⟨0, s1, rfl, Or.inr (Or.inl ⟨hm, by rw [Nat.add_zero, hte], h.1.symm, h.2.symm⟩)⟩
      | true =>
        simp only [Bool.not_true, Bool.false_eq_true, if_false] at h
        rcases hst : step s1 with ⟨r, s2⟩
        rw [hst] at h
        cases r with
        | error b =>
          cases b with
          | halt =>
            simp only [Option.some.injEq, Prod.mk.injEq] at h
            exact ⟨0, s1, rfl, Or.inr (Or.inr ⟨hm, by rw [Nat.add_zero, hte], Or.inl ⟨by rw [hst, h.2], h.1.symm⟩⟩)⟩
          | err e =>
            simp only [Option.some.injEq, Prod.mk.injEq] at h
            exact ⟨0, s1, rfl, Or.inr (Or.inr ⟨hm, by rw [Nat.add_zero, hte], Or.inr (Or.inl ⟨e, by rw [hst, h.2], h.1.symm⟩)⟩)⟩
        | ok u =>
          simp only at h
          by_cases hb : s2.breakpoints.any (bpCheck s2) = true
          · simp only [hb, if_true, Option.some.injEq, Prod.mk.injEq] at h
            exact ⟨0, s1, rfl, Or.inr (Or.inr ⟨hm, by rw [Nat.add_zero, hte], Or.inr (Or.inr ⟨by rw [hst, h.2], by rw [← h.2]; exact hb, h.1.symm⟩)⟩)⟩
          · simp only [hb, Bool.false_eq_true, if_false] at h
            obtain ⟨n, sn, hc, hs⟩ := ih (iter + 1) s2 res s' h
            refine ⟨n + 1, sn, ⟨s2, ⟨hm, by rw [hte], hst, by simpa using hb⟩, hc⟩, ?_⟩
            have : iter + (n + 1) = iter + 1 + n := by omega
            rw [this]; exact hs
    · have hm' : s.mcr = false := by simpa using hm
      simp only [hm', Bool.not_false, if_true, Option.some.injEq, Prod.mk.injEq] at h
      exact ⟨0, s, rfl, Or.inl ⟨hm', h.1.symm, h.2.symm⟩⟩

/-- conversely, a chain of continuing steps followed by a stopping iteration is what the loop returns (with enough fuel) -/
theorem chain_of_steps_is_run (tw : Tripwire) (hp : PureTw tw) : ∀ (n iter : Nat) (s sn : Sim) (res : Except SimErr Pause) (s' : Sim),
    Chain tw n iter s sn → Stop tw (iter + n) sn res s' → runLoop tw (n + 1) iter s = some (res, s') := by
  intro n
  induction n with
  | zero =>
    intro iter s sn res s' hc hs
    cases hc
    unfold runLoop
    have hpure := hp iter s
    simp only [Nat.add_zero] at hs
    rcases hs with ⟨hm, hr, he⟩ | ⟨hm, ht, hr, he⟩ | ⟨hm, ht, hs⟩
    · simp [hm, hr, he]
    · rcases hte : tripwireEval tw iter s with ⟨go, s1⟩
      rw [hte] at ht hpure; simp only at ht hpure; subst hpure ht
      simp [hm, hr, he]
    · rcases hte : tripwireEval tw iter s with ⟨go, s1⟩
      rw [hte] at ht hpure; simp only at ht hpure; subst hpure ht
      rcases hs with ⟨hst, hr⟩ | ⟨e, hst, hr⟩ | ⟨hst, hb, hr⟩
      · simp [hm, hst, hr]
      · simp [hm, hst, hr]
      · simp [hm, hst, hr, hb]
  | succ n ih =>
    intro iter s sn res s' hc hs
    obtain ⟨s1, ⟨hm, ht, hst, hb⟩, hc'⟩ := hc
    have hpure := hp iter s
    have : iter + (n + 1) = iter + 1 + n := by omega
    rw [this] at hs
    have hrec := ih (iter + 1) s1 sn res s' hc' hs
    rw [runLoop]
    rcases hte : tripwireEval tw iter s with ⟨go, s0⟩
    rw [hte] at ht hpure; simp only at ht hpure; subst hpure ht
    simp only [hm, Bool.not_true, Bool.false_eq_true, if_false, hst, hb]
    exact hrec

def obligations : List Lean.Name :=
  [``run_is_chain_of_steps, ``chain_of_steps_is_run, ``pure_public, ``loop_unfold, ``mcr_off_stops, ``fuel_mono, ``limit_reached_stops, ``first_step_always, ``over_out_condition,
   ``step_out_at_depth_zero, ``limit_split, ``comparator_table, ``bp_check_spec, ``runWhile_epilogue]

end Lc3V.C13
