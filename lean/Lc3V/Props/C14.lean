/-
  C14 — Strict mode only adds uninitialized-value errors.   (proved for the model: whole steps and whole runs)
  Proved for every machine state (any devices, flags, memory): run one `step` with strict mode on and one on the same
  machine with strict mode off — either the strict step ends with one of the nine strict (uninitialised-value) errors, or
  both steps return the same result (ok, HALT, the same ISA error) and the same state up to the strict flag: registers, PC,
  PSR, memory, device state, frames, observer, instruction counter (`strict_step_conservative`).  The same for the event
  loop behind `run`, `run_with_limit`, `step_over`, `step_out` (`strict_run_conservative`).  On a machine whose memory words,
  registers and saved stack pointer are all initialised, a step — and hence a run — never ends with a strict error and
  leaves the machine all-initialised (`all_init_step`, `all_init_run`).
  The proofs are relational / invariant calculi over the model's state monad (Lemmas/StrictRel, StrictMem, StrictStep,
  StrictRun; Lemmas/InitInv, InitMem, InitStep, InitRun) that go through every primitive and every instruction.
  The primitive-level lemmas below (get_if_init, set_if_init, set_pc) are kept: they are what the calculus rests on.
-/
import Lc3V.Props.C08
import Lc3V.Props.C15
import Lc3V.Lemmas.StrictRun
import Lc3V.Lemmas.InitRun
namespace Lc3V.C14
open Lc3V Sim SimM

theorem getIfInit_conservative (w : Word) (e : SimErr) (v : W) (h : w.getIfInit true e = .ok v) :
    w.getIfInit false e = .ok v := by
  unfold Word.getIfInit at *
  split at h <;> simp_all

theorem getIfInit_err_kind (w : Word) (e e' : SimErr) (h : w.getIfInit true e = .error e') : e' = e := by
  unfold Word.getIfInit at h
  split at h
  · cases h
  · cases h; rfl

theorem getIfInit_init (w : Word) (e : SimErr) (strict : Bool) (h : w.isInit = true) :
    w.getIfInit strict e = .ok w.data := by
  unfold Word.getIfInit; simp [h]

theorem setIfInit_conservative (d w : Word) (e : SimErr) (r : Word) (h : d.setIfInit w true e = .ok r) :
    d.setIfInit w false e = .ok r := by
  unfold Word.setIfInit at *
  split at h <;> simp_all

theorem setIfInit_err_kind (d w : Word) (e e' : SimErr) (h : d.setIfInit w true e = .error e') : e' = e := by
  unfold Word.setIfInit at h
  split at h
  · cases h
  · cases h; rfl

theorem setIfInit_init (d w : Word) (e : SimErr) (strict : Bool) (h : w.isInit = true) :
    d.setIfInit w strict e = .ok w := by
  unfold Word.setIfInit; simp [h]

/-- every error the strict checks can raise is one of the strict (uninitialised-value) errors -/
theorem strict_errs_are_strict :
    SimErr.strictRegSetUninit.isStrict ∧ SimErr.strictMemSetUninit.isStrict ∧ SimErr.strictIOSetUninit.isStrict ∧
    SimErr.strictJmpAddrUninit.isStrict ∧ SimErr.strictSRAddrUninit.isStrict ∧ SimErr.strictMemAddrUninit.isStrict ∧
    SimErr.strictPCCurrUninit.isStrict ∧ SimErr.strictPCNextUninit.isStrict ∧ SimErr.strictPSRSetUninit.isStrict := by
  decide

def withStrict (s : Sim) (b : Bool) : Sim := { s with flags := { s.flags with strict := b } }

/-- `read_mem` never looks at the strict flag of its context -/
theorem readMem_strict_irrelevant (s : Sim) (a : W) (c : Ctx) (b : Bool) :
    readMem a { c with strict := b } s = readMem a c s := rfl

/-- a strict `set_pc` that succeeds makes exactly the non-strict state change -/
theorem setPc_conservative (s : Sim) (w : Word) (chk : Bool) (s' : Sim)
    (h : setPc w chk (withStrict s true) = (.ok (), s')) :
    setPc w chk (withStrict s false) = (.ok (), withStrict s' false) := by
  have hmem : ∀ b, (withStrict s b).memAt w.data = s.memAt w.data := fun _ => rfl
  cases hw : w.isInit <;> cases hc : chk <;> cases hm : (s.mem[w.data.toNat]'(w.data.isLt)).isInit <;>
    simp [setPc, withStrict, Word.getIfInit, hw, hc, hm, hmem, memAt] at h ⊢ <;>
    (try (subst h; simp))

/-- a strict `set_pc` failure is a strict error -/
theorem setPc_err_kind (s : Sim) (w : Word) (chk : Bool) (e : StepBreak) (s' : Sim)
    (h : setPc w chk (withStrict s true) = (.error e, s')) :
    e = .err .strictJmpAddrUninit ∨ e = .err .strictPCNextUninit := by
  unfold setPc at h
  simp only [SimM.bind_apply, SimM.getS_apply, withStrict] at h
  cases hw : w.isInit
  · simp [Word.getIfInit, hw] at h; left; exact h.1.symm
  · simp [Word.getIfInit, hw] at h
    split at h
    · split at h
      · simp at h; right; exact h.1.symm
      · simp at h
    · simp at h

/-- fully initialised target word and address: `set_pc` cannot fail in either mode -/
theorem setPc_init (s : Sim) (w : Word) (chk : Bool) (hw : w.isInit = true) (hm : (s.memAt w.data).isInit = true) :
    setPc w chk s = (.ok (), { s with pc := w.data }) := by
  unfold setPc
  simp [Word.getIfInit, hw, hm]

/-- on an all-initialised machine the operate instructions produce initialised results (C15.full_init) -/
theorem operate_keeps_init (x y : W) :
    (Word.add (Word.ofData x) (Word.ofData y)).isInit = true ∧ (Word.and (Word.ofData x) (Word.ofData y)).isInit = true ∧
    (Word.not (Word.ofData x)).isInit = true ∧ (Word.sub (Word.ofData x) (Word.ofData y)).isInit = true := by
  obtain ⟨h1, h2, h3, h4⟩ := C15.full_init x y
  rw [h1, h2, h3, h4]
  simp [Word.isInit, Word.ofData]

/-! ### whole steps and whole runs -/

theorem withStrict_false (s : Sim) : withStrict s false = s.ns := rfl

/-- **strict mode is conservative for a step**: either the strict step ends with a strict error, or the non-strict step
    gives the same result and the same state up to the flag -/
theorem strict_step_conservative (s : Sim) (hs : s.flags.strict = true) :
    (∃ e, (Sim.step s).1 = .error (.err e) ∧ e.isStrict = true) ∨
    Sim.step (withStrict s false) = ((Sim.step s).1, withStrict (Sim.step s).2 false) :=
  (step_strict_conservative s hs).2

/-- the strict flag itself never changes during a step -/
theorem step_keeps_strict (s : Sim) (hs : s.flags.strict = true) : (Sim.step s).2.flags.strict = true :=
  (step_strict_conservative s hs).1

/-- a step that fails only under strict mode fails with a strict error -/
theorem strict_only_failure_is_strict (s : Sim) (hs : s.flags.strict = true)
    (hdiff : Sim.step (withStrict s false) ≠ ((Sim.step s).1, withStrict (Sim.step s).2 false)) :
    ∃ e, (Sim.step s).1 = .error (.err e) ∧ e.isStrict = true := by
  rcases strict_step_conservative s hs with h | h
  · exact h
  · exact absurd h hdiff

/-- **strict mode is conservative for runs** (the loop behind run / run_with_limit / step_over / step_out, any tripwire,
    any number of iterations): either the strict run ends with a strict error, or the non-strict run ends with the same
    result in the same state up to the flag -/
theorem strict_run_conservative (tw : Tripwire) (fuel iter : Nat) (s : Sim) (hs : s.flags.strict = true) (r : Except SimErr Pause) (s' : Sim)
    (h : runLoop tw fuel iter s = some (r, s')) :
    (∃ e, r = .error e ∧ e.isStrict = true) ∨ runLoop tw fuel iter (withStrict s false) = some (r, withStrict s' false) := by
  have := runLoop_conservative tw fuel iter s hs
  rw [h] at this
  exact this.2

/-- **all-initialised machines**: no strict error, and the machine stays all-initialised -/
theorem all_init_step (s : Sim) (h : AllInit s) :
    AllInit (Sim.step s).2 ∧ ∀ e, (Sim.step s).1 = .error (.err e) → e.isStrict = false :=
  step_all_init s h

theorem all_init_run (tw : Tripwire) (fuel iter : Nat) (s : Sim) (h : AllInit s) (r : Except SimErr Pause) (s' : Sim)
    (hr : runLoop tw fuel iter s = some (r, s')) : AllInit s' ∧ ∀ e, r = .error e → e.isStrict = false := by
  have := runLoop_all_init tw fuel iter s h
  rw [hr] at this
  exact this

-- non-vacuity: an all-initialised strict machine exists (so the hypotheses of the theorems above are satisfiable together)
example : ∃ s : Sim, AllInit s ∧ s.flags.strict = true := by
  refine ⟨{ mem := Vector.replicate 65536 (Word.ofData 0), regs := Vector.replicate 8 (Word.ofData 0), pc := 0x3000, psr := PSR.new,
            savedSp := Word.ofData 0x3000, frameNo := 0, frames := none, srDefs := [], alloca := #[], instrRun := 0,
            prefetch := false, pause := .unsuccessful, observer := {}, mcr := true, flags := { strict := true },
            breakpoints := [], iregs := defaultIregs, dev := DevHandler.new, log := [] }, ⟨?_, ?_, ?_⟩, rfl⟩
  · intro a; simp [Sim.memAt, Word.isInit, Word.ofData]
  · intro r; simp [Sim.reg, Word.isInit, Word.ofData]
  · simp [Word.isInit, Word.ofData]

def obligations : List Lean.Name :=
  [``getIfInit_conservative, ``getIfInit_err_kind, ``getIfInit_init, ``setIfInit_conservative, ``setIfInit_err_kind,
   ``setIfInit_init, ``strict_errs_are_strict, ``readMem_strict_irrelevant, ``setPc_conservative, ``setPc_err_kind,
   ``setPc_init, ``operate_keeps_init, ``strict_step_conservative, ``step_keeps_strict, ``strict_only_failure_is_strict,
   ``strict_run_conservative, ``all_init_step, ``all_init_run]

end Lc3V.C14
