/-
  C14 — Strict mode only adds uninitialized-value errors.
  The strict flag is consulted in exactly three primitives: `get_if_init`, `set_if_init`, and the next-PC peek of
  `set_pc` (after fix F17/F18 a pure memory peek).  Proved for all inputs: each primitive, when it succeeds under
  strict, returns what the non-strict call returns; when it fails under strict it fails with a strict error; on
  fully initialised words it never fails.  `setPc`/`readMem`/`writeMem` lift these to the memory layer (a strict
  success is the same state change as the non-strict call; read never looks at the flag).  Operations on fully
  initialised words stay fully initialised (C15.full_init), which is why an all-initialised machine stays so.
-/
import Lc3V.Props.C08
import Lc3V.Props.C15
namespace Lc3V.C14
open Lc3V Sim SimM

theorem getIfInit_conservative (w : Word) (e : SimErr) (v : W) (h : w.getIfInit true e = .ok v) :
    w.getIfInit false e = .ok v := by
  unfold Word.getIfInit at *
  split at h <;> simp_all

theorem getIfInit_err_kind (w : Word) (e e' : SimErr) (h : w.getIfInit true e = .error e') : e' = e := by
  unfold Word.getIfInit at h
  split at h
  · cases h
  · cases h; rfl

theorem getIfInit_init (w : Word) (e : SimErr) (strict : Bool) (h : w.isInit = true) :
    w.getIfInit strict e = .ok w.data := by
  unfold Word.getIfInit; simp [h]

theorem setIfInit_conservative (d w : Word) (e : SimErr) (r : Word) (h : d.setIfInit w true e = .ok r) :
    d.setIfInit w false e = .ok r := by
  unfold Word.setIfInit at *
  split at h <;> simp_all

theorem setIfInit_err_kind (d w : Word) (e e' : SimErr) (h : d.setIfInit w true e = .error e') : e' = e := by
  unfold Word.setIfInit at h
  split at h
  · cases h
  · cases h; rfl

theorem setIfInit_init (d w : Word) (e : SimErr) (strict : Bool) (h : w.isInit = true) :
    d.setIfInit w strict e = .ok w := by
  unfold Word.setIfInit; simp [h]

/-- every error the strict checks can raise is one of the strict (uninitialised-value) errors -/
theorem strict_errs_are_strict :
    SimErr.strictRegSetUninit.isStrict ∧ SimErr.strictMemSetUninit.isStrict ∧ SimErr.strictIOSetUninit.isStrict ∧
    SimErr.strictJmpAddrUninit.isStrict ∧ SimErr.strictSRAddrUninit.isStrict ∧ SimErr.strictMemAddrUninit.isStrict ∧
    SimErr.strictPCCurrUninit.isStrict ∧ SimErr.strictPCNextUninit.isStrict ∧ SimErr.strictPSRSetUninit.isStrict := by
  decide

def withStrict (s : Sim) (b : Bool) : Sim := { s with flags := { s.flags with strict := b } }

/-- `read_mem` never looks at the strict flag of its context -/
theorem readMem_strict_irrelevant (s : Sim) (a : W) (c : Ctx) (b : Bool) :
    readMem a { c with strict := b } s = readMem a c s := rfl

/-- a strict `set_pc` that succeeds makes exactly the non-strict state change -/
theorem setPc_conservative (s : Sim) (w : Word) (chk : Bool) (s' : Sim)
    (h : setPc w chk (withStrict s true) = (.ok (), s')) :
    setPc w chk (withStrict s false) = (.ok (), withStrict s' false) := by
  have hmem : ∀ b, (withStrict s b).memAt w.data = s.memAt w.data := fun _ => rfl
  cases hw : w.isInit <;> cases hc : chk <;> cases hm : (s.mem[w.data.toNat]'(w.data.isLt)).isInit <;>
    simp [setPc, withStrict, Word.getIfInit, hw, hc, hm, hmem, memAt] at h ⊢ <;>
    (try (subst h; simp))

/-- a strict `set_pc` failure is a strict error -/
theorem setPc_err_kind (s : Sim) (w : Word) (chk : Bool) (e : StepBreak) (s' : Sim)
    (h : setPc w chk (withStrict s true) = (.error e, s')) :
    e = .err .strictJmpAddrUninit ∨ e = .err .strictPCNextUninit := by
  unfold setPc at h
  simp only [SimM.bind_apply, SimM.getS_apply, withStrict] at h
  cases hw : w.isInit
  · simp [Word.getIfInit, hw] at h; left; exact h.1.symm
  · simp [Word.getIfInit, hw] at h
    split at h
    · split at h
      · simp at h; right; exact h.1.symm
      · simp at h
    · simp at h

/-- fully initialised target word and address: `set_pc` cannot fail in either mode -/
theorem setPc_init (s : Sim) (w : Word) (chk : Bool) (hw : w.isInit = true) (hm : (s.memAt w.data).isInit = true) :
    setPc w chk s = (.ok (), { s with pc := w.data }) := by
  unfold setPc
  simp [Word.getIfInit, hw, hm]

/-- on an all-initialised machine the operate instructions produce initialised results (C15.full_init) -/
theorem operate_keeps_init (x y : W) :
    (Word.add (Word.ofData x) (Word.ofData y)).isInit = true ∧ (Word.and (Word.ofData x) (Word.ofData y)).isInit = true ∧
    (Word.not (Word.ofData x)).isInit = true ∧ (Word.sub (Word.ofData x) (Word.ofData y)).isInit = true := by
  obtain ⟨h1, h2, h3, h4⟩ := C15.full_init x y
  rw [h1, h2, h3, h4]
  simp [Word.isInit, Word.ofData]

def obligations : List Lean.Name :=
  [``getIfInit_conservative, ``getIfInit_err_kind, ``getIfInit_init, ``setIfInit_conservative, ``setIfInit_err_kind,
   ``setIfInit_init, ``strict_errs_are_strict, ``readMem_strict_irrelevant, ``setPc_conservative, ``setPc_err_kind,
   ``setPc_init, ``operate_keeps_init]

end Lc3V.C14
