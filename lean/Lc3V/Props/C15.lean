/-
  C15 — Initialization tracking of words is sound.
  `agree a a'`: same mask and same value on every initialised bit, i.e. a' is a with its uninitialised
  bits re-chosen arbitrarily.  Soundness: the result mask is the same and every bit the result reports
  as initialised has the same value.
-/
import Lc3V.Model.Word
namespace Lc3V.C15
open Lc3V Word

def agree (a a' : Word) : Prop := a.init = a'.init ∧ a.data &&& a.init = a'.data &&& a.init

/-- The conclusion shape: same mask, same initialised bits. -/
def sameInit (r r' : Word) : Prop := r.init = r'.init ∧ r.data &&& r.init = r'.data &&& r.init

theorem agree_full {a a' : Word} (h : agree a a') (hi : a.init = ALL) : a' = a := by
  obtain ⟨h1, h2⟩ := h
  cases a; cases a'
  simp only [ALL] at *
  subst hi; subst h1
  simp only [BitVec.and_allOnes] at h2
  simp [h2]

theorem not_sound (a a' : Word) (h : agree a a') : sameInit (Word.not a) (Word.not a') := by
  obtain ⟨h1, h2⟩ := h
  refine ⟨h1, ?_⟩
  simp only [Word.not]
  apply BitVec.eq_of_getLsbD_eq
  intro i hi
  have hb := congrArg (fun x => x.getLsbD i) h2
  have hm := congrArg (fun x => x.getLsbD i) h1
  simp only [BitVec.getLsbD_and, BitVec.getLsbD_not] at hb hm ⊢
  simp only [hi, decide_true, Bool.true_and]
  revert hb hm
  cases a.data.getLsbD i <;> cases a.init.getLsbD i <;> cases a'.data.getLsbD i <;> cases a'.init.getLsbD i <;> simp

theorem and_sound (a a' b b' : Word) (ha : agree a a') (hb : agree b b') :
    sameInit (Word.and a b) (Word.and a' b') := by
  obtain ⟨ha1, ha2⟩ := ha
  obtain ⟨hb1, hb2⟩ := hb
  have key : ∀ i, i < 16 →
      ((Word.and a b).init.getLsbD i = (Word.and a' b').init.getLsbD i) ∧
      (((Word.and a b).data &&& (Word.and a b).init).getLsbD i =
        ((Word.and a' b').data &&& (Word.and a b).init).getLsbD i) := by
    intro i hi
    have e1 := congrArg (fun x => x.getLsbD i) ha1
    have e2 := congrArg (fun x => x.getLsbD i) ha2
    have e3 := congrArg (fun x => x.getLsbD i) hb1
    have e4 := congrArg (fun x => x.getLsbD i) hb2
    simp only [Word.and, BitVec.getLsbD_and, BitVec.getLsbD_or, BitVec.getLsbD_not] at e1 e2 e3 e4 ⊢
    simp only [hi, decide_true, Bool.true_and]
    revert e1 e2 e3 e4
    cases a.data.getLsbD i <;> cases a.init.getLsbD i <;> cases a'.data.getLsbD i <;>
      cases a'.init.getLsbD i <;> cases b.data.getLsbD i <;> cases b.init.getLsbD i <;>
      cases b'.data.getLsbD i <;> cases b'.init.getLsbD i <;> simp
  have hinit : (Word.and a b).init = (Word.and a' b').init :=
    BitVec.eq_of_getLsbD_eq (fun i hi => (key i hi).1)
  refine ⟨hinit, ?_⟩
  exact BitVec.eq_of_getLsbD_eq (fun i hi => (key i hi).2)

theorem add_sound (a a' b b' : Word) (ha : agree a a') (hb : agree b b') :
    sameInit (Word.add a b) (Word.add a' b') := by
  by_cases hbi : b.init = ALL
  · have eb := agree_full hb hbi; subst eb
    by_cases hai : a.init = ALL
    · have ea := agree_full ha hai; subst ea; exact ⟨rfl, rfl⟩
    · have hai' : a'.init ≠ ALL := by rw [← ha.1]; exact hai
      unfold Word.add
      by_cases hz : b'.data = 0#16
      · simp [hz, hbi]; exact ha
      · simp [hz, hai, hai', sameInit, NONE]
  · have hbi' : b'.init ≠ ALL := by rw [← hb.1]; exact hbi
    by_cases hai : a.init = ALL
    · have ea := agree_full ha hai; subst ea
      unfold Word.add
      by_cases hz : a'.data = 0#16
      · simp [hz, hai, hbi, hbi']; exact hb
      · simp [hz, hbi, hbi', sameInit, NONE]
    · have hai' : a'.init ≠ ALL := by rw [← ha.1]; exact hai
      unfold Word.add
      simp [hai, hai', hbi, hbi', sameInit, NONE]

theorem sub_sound (a a' b b' : Word) (ha : agree a a') (hb : agree b b') :
    sameInit (Word.sub a b) (Word.sub a' b') := by
  by_cases hbi : b.init = ALL
  · have eb := agree_full hb hbi; subst eb
    by_cases hai : a.init = ALL
    · have ea := agree_full ha hai; subst ea; exact ⟨rfl, rfl⟩
    · have hai' : a'.init ≠ ALL := by rw [← ha.1]; exact hai
      unfold Word.sub
      by_cases hz : b'.data = 0#16
      · simp [hz, hbi]; exact ha
      · simp [hz, hai, hai', sameInit, NONE]
  · have hbi' : b'.init ≠ ALL := by rw [← hb.1]; exact hbi
    unfold Word.sub
    simp [hbi, hbi', sameInit, NONE]

/-- Operations on fully initialised words give fully initialised results carrying the wrapping value. -/
theorem full_init (x y : W) :
    Word.add (ofData x) (ofData y) = ofData (x + y) ∧
    Word.sub (ofData x) (ofData y) = ofData (x - y) ∧
    Word.and (ofData x) (ofData y) = ofData (x &&& y) ∧
    Word.not (ofData x) = ofData (~~~x) := by
  refine ⟨?_, ?_, ?_, ?_⟩
  · unfold Word.add ofData
    by_cases hy : y = 0#16
    · subst hy; simp
    · by_cases hx : x = 0#16
      · subst hx; simp [hy]
      · simp [hx, hy]
  · unfold Word.sub ofData
    by_cases hy : y = 0#16
    · subst hy; simp
    · simp [hy]
  · unfold Word.and ofData
    simp only [ALL]
    congr 1
    apply BitVec.eq_of_getLsbD_eq
    intro i hi
    simp only [BitVec.getLsbD_or, BitVec.getLsbD_and, BitVec.getLsbD_allOnes, hi, decide_true]
    simp
  · rfl

/-- `agree` is not vacuous: a half-initialised word agrees with a differently-filled one. -/
example : agree ⟨0x12AB, 0xFF00⟩ ⟨0x12CD, 0xFF00⟩ := by unfold agree; decide
example : (Word.and ⟨0x00AB, 0xFF00⟩ ⟨0x1234, 0x0000⟩).init = 0xFF00 := by decide

def obligations : List Lean.Name :=
  [``not_sound, ``and_sound, ``add_sound, ``sub_sound, ``full_init, ``agree_full]

end Lc3V.C15
