/-
  C16 — No machine state makes the simulator panic.
  The model's functions are total; the Rust operations that *can* panic and are reachable from a step are listed in
  tools/panic_sites (static audit) and each is discharged here by an invariant or a width fact:
    * `devices[dev_id]` (device.rs io_read/io_write): `DevInv` — every port's id is below `devices.len()` — holds
      for `DeviceHandler::new` and is preserved by every handler operation (so the model's `getD` default is dead);
    * `alloca[first_post - 1]` (sim.rs in_alloca): the partition point never exceeds the length;
    * `Reg::try_from(bits).unwrap()` (ast/sim.rs): every register slice is 3 bits wide (`toReg` = `setWidth 3`,
      and `slice w lo (lo+3) < 8`);
    * `prefetch_pc` (F4, repaired): wrapping subtraction, total;
    * `frame_no += 1`: overflows only after 2^64 pushes (stated as hypothesis where used; unreachable in practice);
    * PC / SP / address arithmetic: all `wrapping_*` in the code, `BitVec` arithmetic in the model.
-/
import Lc3V.Props.C08
namespace Lc3V.C16
open Lc3V Sim SimM DevHandler

/-- every port's device id is a valid index into `devices` -/
def DevInv (h : DevHandler) : Prop := ∀ i : Fin 512, h.ports[i] < h.devices.size

theorem dispatch_in_bounds (h : DevHandler) (hi : DevInv h) (addr : W) (id : Nat) (hg : h.getDevId addr = some id) :
    id < h.devices.size := by
  unfold getDevId at hg
  cases hp : portIdx addr with
  | none => simp [hp] at hg
  | some i => simp [hp] at hg; rw [← hg]; exact hi i

theorem setPort_inv (h : DevHandler) (p : W) (id : Nat) (hi : DevInv h) : DevInv (h.setPort p id) := by
  unfold setPort
  split
  · exact hi
  · rename_i i _
    split
    · rename_i hc
      intro j
      show (h.ports.set i id)[j] < h.devices.size
      by_cases hij : i.val = j.val
      · have : (h.ports.set i id)[j] = id := by
          simp only [Fin.getElem_fin]; rw [Vector.getElem_set]; simp [hij]
        rw [this]; exact hc.2
      · have : (h.ports.set i id)[j] = h.ports[j] := by
          simp only [Fin.getElem_fin]; rw [Vector.getElem_set]; simp [hij]
        rw [this]; exact hi j
    · exact hi

theorem setPort_size (h : DevHandler) (p : W) (id : Nat) : (h.setPort p id).devices.size = h.devices.size := by
  unfold setPort; split
  · rfl
  · split <;> rfl

theorem new_inv : DevInv DevHandler.new := by
  unfold DevHandler.new
  apply setPort_inv; apply setPort_inv; apply setPort_inv; apply setPort_inv
  intro i
  simp

theorem setKeyboard_inv (h : DevHandler) (d : Device) (hi : DevInv h) : DevInv (h.setKeyboard d) := by
  intro i; unfold setKeyboard; simp only [Array.size_setIfInBounds]; exact hi i

theorem setDisplay_inv (h : DevHandler) (d : Device) (hi : DevInv h) : DevInv (h.setDisplay d) := by
  intro i; unfold setDisplay; simp only [Array.size_setIfInBounds]; exact hi i

theorem foldl_setPort_inv (addrs : List W) (id : Nat) (h : DevHandler) (hi : DevInv h) :
    DevInv (addrs.foldl (fun acc p => acc.setPort p id) h) := by
  induction addrs generalizing h with
  | nil => exact hi
  | cons a rest ih => exact ih _ (setPort_inv h a id hi)

theorem addDevice_inv (h : DevHandler) (d : Device) (addrs : List W) (hi : DevInv h) :
    DevInv (h.addDevice d addrs).2 := by
  unfold addDevice
  split
  · exact hi
  · split
    · apply foldl_setPort_inv
      intro i
      simp only [Array.size_push]
      exact Nat.lt_succ_of_lt (hi i)
    · exact hi

theorem removeDevice_inv (h : DevHandler) (id : Nat) (hi : DevInv h) : DevInv (h.removeDevice id) := by
  unfold removeDevice
  split
  · rename_i hlt
    split
    · intro i; simp only [Array.size_setIfInBounds]; exact hi i
    · intro i
      simp only [Array.size_setIfInBounds, Fin.getElem_fin, Vector.getElem_map]
      split
      · omega
      · exact hi i
  · exact hi

theorem ioRead_inv (h : DevHandler) (a : W) (e : Bool) (hi : DevInv h) : DevInv (h.ioRead a e).2 := by
  unfold DevHandler.ioRead
  split
  · exact hi
  · intro i; simp only [Array.size_setIfInBounds]; exact hi i

theorem ioWrite_inv (h : DevHandler) (a d : W) (hi : DevInv h) : DevInv (h.ioWrite a d).2 := by
  unfold DevHandler.ioWrite
  split
  · exact hi
  · intro i; simp only [Array.size_setIfInBounds]; exact hi i

theorem ioReset_inv (h : DevHandler) (hi : DevInv h) : DevInv h.ioReset := by
  intro i; unfold DevHandler.ioReset; simp only [Array.size_map]; exact hi i

/-- polling visits every device once and keeps their number -/
theorem poll_size (h : DevHandler) : (h.pollInterrupt).2.devices.size = h.devices.size := by
  unfold pollInterrupt
  simp only
  have key : ∀ (l : List Device) (acc : Option Interrupt × Array Device),
      (l.foldl pollStep acc).2.size = acc.2.size + l.length := by
    intro l
    induction l with
    | nil => intro acc; simp
    | cons d rest ih =>
      intro acc
      simp only [List.foldl_cons, ih, List.length_cons]
      simp only [pollStep, Array.size_push]; omega
  rw [← Array.foldl_toList]
  have := key h.devices.toList (none, #[])
  simpa using this

theorem poll_inv (h : DevHandler) (hi : DevInv h) : DevInv (h.pollInterrupt).2 := by
  intro i
  rw [poll_size]
  exact hi i

/-- `alloca[first_post - 1]` is in bounds -/
theorem inAlloca_index (s : Sim) (addr : W) :
    (s.alloca.toList.takeWhile (fun b => b.1.toNat ≤ addr.toNat)).length ≤ s.alloca.size := by
  have := List.Sublist.length_le (List.takeWhile_sublist (fun (b : W × W) => decide (b.1.toNat ≤ addr.toNat)) (l := s.alloca.toList))
  simpa using this

/-- every register field sliced by `decode` is below 8, so `Reg::try_from(..).unwrap()` cannot fail -/
theorem reg_slice_lt (w : W) (lo : Nat) : (SimInstr.slice w lo (lo + 3)).toNat < 8 := by
  unfold SimInstr.slice
  have h : (lo + 3 - lo) = 3 := by omega
  rw [h]
  have : (((1 <<< 3 : Nat) : W) - 1) = 7 := by decide
  rw [this, BitVec.toNat_and]
  exact Nat.lt_of_le_of_lt Nat.and_le_right (by decide)

/-- `prefetch_pc` is total (wrapping): it is the PC, or the PC minus one -/
theorem prefetchPc_total (s : Sim) : s.prefetchPc = s.pc ∨ s.prefetchPc = s.pc - 1 := by
  unfold prefetchPc; cases s.prefetch <;> simp

example : DevInv DevHandler.new := new_inv

def obligations : List Lean.Name :=
  [``dispatch_in_bounds, ``setPort_inv, ``new_inv, ``setKeyboard_inv, ``setDisplay_inv, ``addDevice_inv,
   ``removeDevice_inv, ``ioRead_inv, ``ioWrite_inv, ``ioReset_inv, ``poll_size, ``poll_inv, ``inAlloca_index,
   ``reg_slice_lt, ``prefetchPc_total]

end Lc3V.C16
