/-
  C16 — No machine state makes the simulator panic.
  The model's functions are total; the Rust operations that *can* panic and are reachable from a step are listed in
  tools/panic_sites (static audit) and each is discharged here by an invariant or a width fact:
    * `devices[dev_id]` (device.rs io_read/io_write): `DevInv` — every port's id is below `devices.len()` — holds
      for `DeviceHandler::new` and is preserved by every handler operation (so the model's `getD` default is dead);
    * `alloca[first_post - 1]` (sim.rs in_alloca): the partition point never exceeds the length;
    * `Reg::try_from(bits).unwrap()` (ast/sim.rs): every register slice is 3 bits wide (`toReg` = `setWidth 3`,
      and `slice w lo (lo+3) < 8`);
    * `prefetch_pc` (F4, repaired): wrapping subtraction, total;
    * `frame_no += 1`: overflows only after 2^64 pushes (stated as hypothesis where used; unreachable in practice);
    * PC / SP / address arithmetic: all `wrapping_*` in the code, `BitVec` arithmetic in the model.
-/
import Lc3V.Lemmas.DevStep
namespace Lc3V.C16
open Lc3V Sim SimM DevHandler

/-- `alloca[first_post - 1]` is in bounds -/
theorem inAlloca_index (s : Sim) (addr : W) :
    (s.alloca.toList.takeWhile (fun b => b.1.toNat ≤ addr.toNat)).length ≤ s.alloca.size := by
  have := List.Sublist.length_le (List.takeWhile_sublist (fun (b : W × W) => decide (b.1.toNat ≤ addr.toNat)) (l := s.alloca.toList))
  simpa using this

/-- every register field sliced by `decode` is below 8, so `Reg::try_from(..).unwrap()` cannot fail -/
theorem reg_slice_lt (w : W) (lo : Nat) : (SimInstr.slice w lo (lo + 3)).toNat < 8 := by
  unfold SimInstr.slice
  have h : (lo + 3 - lo) = 3 := by omega
  rw [h]
  have : (((1 <<< 3 : Nat) : W) - 1) = 7 := by decide
  rw [this, BitVec.toNat_and]
  exact Nat.lt_of_le_of_lt Nat.and_le_right (by decide)

/-- `prefetch_pc` is total (wrapping): it is the PC, or the PC minus one -/
theorem prefetchPc_total (s : Sim) : s.prefetchPc = s.pc ∨ s.prefetchPc = s.pc - 1 := by
  unfold prefetchPc; cases s.prefetch <;> simp

/-- **the invariant holds in every reachable state**: preserved by every step (any instruction, trap, interrupt; any flags)
    and every run, so the `devices[dev_id]` index of `io_read`/`io_write` is in bounds after any number of steps -/
theorem devInv_step (s : Sim) (h : DevInv s.dev) : DevInv (Sim.step s).2.dev := step_dev_inv s h

theorem devInv_run (tw : Tripwire) (fuel iter : Nat) (s : Sim) (h : DevInv s.dev) (r : Except SimErr Pause) (s' : Sim)
    (hr : runLoop tw fuel iter s = some (r, s')) : DevInv s'.dev := by
  have := runLoop_dev_inv tw fuel iter s h
  rw [hr] at this
  exact this

example : DevInv DevHandler.new := new_inv

def obligations : List Lean.Name :=
  [``dispatch_in_bounds, ``setPort_inv, ``new_inv, ``setKeyboard_inv, ``setDisplay_inv, ``addDevice_inv,
   ``removeDevice_inv, ``ioRead_inv, ``ioWrite_inv, ``ioReset_inv, ``poll_size, ``poll_inv, ``inAlloca_index,
   ``reg_slice_lt, ``prefetchPc_total, ``devInv_step, ``devInv_run]

end Lc3V.C16
