/-
  C17 — Binary object format round-trips every object file.
  Proved: `deserialize (serialize o) = some o` for every well-formed object file `o` (`Bin.WF`): block map with strictly
  increasing starts below 2^16 and fewer than 2^16 words per block; label names pairwise different, source positions and
  name lengths below 2^64; relocation addresses pairwise different; with debug symbols: line blocks with strictly
  increasing first lines, disjoint, fewer than 2^16 strictly ascending addresses each, the newline table consistent with
  the source text; a symbol table only when it holds a label or debug symbols.  Every field is covered: memory image incl.
  uninitialised words, labels, external flags, source positions, relocation entries (little-endian, fix F5), line
  mapping, source text (UTF-8 decode∘encode = id for every string).  The equality is exact (same entry order), so it
  holds a fortiori up to the unspecified order of the Rust hash maps.
  `assembled_roundtrip` (Lemmas/AssembledWF.lean): every file `assemble` returns without debug symbols is `WF` — sorted blocks
  within the field widths (C01 image theorem, no wrap of the location counter), unique label names and relocation addresses
  (invariants of pass 1), fields that fit — hence round-trips.
  `assembled_debug_roundtrip` (Lemmas/AssembledWFDebug.lean): the same with debug symbols — the line blocks are strictly
  ascending because `lookup_line` is injective (C24.rev_lookup_inverts) and within the widths because no block wraps.
  `source_roundtrip` (Lemmas/ParserFacts, ParserIdx, ParserOut, ParserDischarge): all remaining side hypotheses are facts about
  the output of `parse_ast` (string tokens below 64 K, `.blkw 0` rejected, labels are tokens of the text so positions and
  upper-cased names fit 64 bits for a source below 2^64/12 bytes, statements on strictly increasing lines), so ANY source
  text that parses and assembles, with or without debug symbols, gives a file that round-trips.
  Session 5 (`binary_roundtrip_assembled_or_linked`, Lemmas/BinLink; the theorems above now live in Lemmas/C17Core): `WF` of
  LINKED files.  `link` keeps `TOk` (Lemmas/TxtLink: table shapes, debug symbols as the condensation of a per-line vector) and
  `BExtra` (name lengths, line blocks and source size within the field widths: `link_bExtra`; the merged line map is A's
  blocks followed by B's re-keyed blocks, the merged source is the two sources and a line feed), both hold for every file
  assembled from source (`source_tOk`, `source_bExtra`) and together give `WF` (`binWF_of`).  Hence the property as stated: any
  object file produced by assembling source texts (with or without debug symbols) and linking the results in any order
  and grouping is read back unchanged from the binary format (side condition: the sources with debug symbols, plus one byte
  each, fit 2^64 bytes).  `roundtrip_assembled_or_linked` (Lemmas/LinkAny) removes the restriction to files with symbol tables: `link` keeps `Inv2`
  (no symbol table and a well-formed block map, or `TOk` and `BExtra`) in all four cases.  By correspondence only: files written by
  hand or produced by the readers.
-/
import Lc3V.Lemmas.C17Core
import Lc3V.Lemmas.BinLink
import Lc3V.Lemmas.LinkAny
namespace Lc3V.C17
open Lc3V Bin

def obligations : List Lean.Name :=
  [``roundtrip, ``source_roundtrip, ``Lc3V.parsed_program_facts, ``Lc3V.upperC_length, ``assembled_roundtrip, ``assembled_debug_roundtrip, ``Lc3V.assembled_wf_debug, ``Lc3V.assembled_wf_nodebug, ``wf_empty, ``Lc3V.Bin.deserialize_serialize, ``Lc3V.Bin.fromUtf8_utf8, ``Lc3V.Bin.unle_le, ``Lc3V.Bin.chunks3_words,
   ``Lc3V.Bin.chunks2_words, ``Lc3V.Bin.read_block, ``Lc3V.Bin.read_label, ``Lc3V.Bin.read_lineBlock, ``Lc3V.Bin.read_src,
   ``Lc3V.Bin.read_rel, ``Lc3V.Bin.readChunks_items, ``Lc3V.Bin.fromBlocks_self, ``Lc3V.insAll_nil,
   ``Lc3V.binWF_of, ``Lc3V.link_bExtra, ``Lc3V.source_bExtra, ``Lc3V.source_tOk, ``Lc3V.link_tOk, ``Lc3V.Txt.DOk.link,
   ``Lc3V.C20.binary_roundtrip_assembled_or_linked,
   ``Lc3V.C20.link_inv2, ``Lc3V.C20.source_inv2, ``Lc3V.C20.roundtrip_assembled_or_linked]

end Lc3V.C17
