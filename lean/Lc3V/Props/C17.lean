/-
  C17 — Binary object format round-trips every object file.
  Proved: `deserialize (serialize o) = some o` for every well-formed object file `o` (`Bin.WF`): block map with strictly
  increasing starts below 2^16 and fewer than 2^16 words per block; label names pairwise different, source positions and
  name lengths below 2^64; relocation addresses pairwise different; with debug symbols: line blocks with strictly
  increasing first lines, disjoint, fewer than 2^16 strictly ascending addresses each, the newline table consistent with
  the source text; a symbol table only when it holds a label or debug symbols.  Every field is covered: memory image incl.
  uninitialised words, labels, external flags, source positions, relocation entries (little-endian, fix F5), line
  mapping, source text (UTF-8 decode∘encode = id for every string).  The equality is exact (same entry order), so it
  holds a fortiori up to the unspecified order of the Rust hash maps.
  `assembled_roundtrip` (Lemmas/AssembledWF.lean): every file `assemble` returns without debug symbols is `WF` — sorted blocks
  within the field widths (C01 image theorem, no wrap of the location counter), unique label names and relocation addresses
  (invariants of pass 1), fields that fit — hence round-trips.
  `assembled_debug_roundtrip` (Lemmas/AssembledWFDebug.lean): the same with debug symbols — the line blocks are strictly
  ascending because `lookup_line` is injective (C24.rev_lookup_inverts) and within the widths because no block wraps.
  `source_roundtrip` (Lemmas/ParserFacts, ParserIdx, ParserOut, ParserDischarge): all remaining side hypotheses are facts about
  the output of `parse_ast` (string tokens below 64 K, `.blkw 0` rejected, labels are tokens of the text so positions and
  upper-cased names fit 64 bits for a source below 2^64/12 bytes, statements on strictly increasing lines), so ANY source
  text that parses and assembles, with or without debug symbols, gives a file that round-trips.
  Not proved: `WF` of linked files. That gap is what the correspondence check covers: 2,500+ object files from assembling and linking are
  serialized and read back by implementation and model, and both must return the original.
-/
import Lc3V.Lemmas.BinRoundtrip2
import Lc3V.Lemmas.AssembledWF
import Lc3V.Lemmas.AssembledWFDebug
import Lc3V.Lemmas.ParserDischarge
set_option linter.unusedSimpArgs false
namespace Lc3V.C17
open Lc3V Bin

/-- the round trip, for every well-formed object file -/
theorem roundtrip (o : ObjFile) (h : WF o) : deserialize (serialize o) = some o := deserialize_serialize o h

/-- the empty object file is well-formed -/
theorem wf_empty : WF ⟨[], none⟩ := by
  refine ⟨trivial, ?_, ?_⟩
  · intro b hb; cases hb
  · intro t ht; cases ht

/-- the hypotheses are satisfiable by a file with every kind of content: two blocks (one with an uninitialised word), a
    local and an external label, a relocation entry, a line map and a source text with a non-ASCII character -/
def sample : ObjFile :=
  ⟨[(0x3000, [some 0x1021, none, some 0x0000]), (0x4000, [some 0xF025])],
   some ⟨[(['A'], ⟨0x3000, 12, false⟩), (['X'], ⟨0, 40, true⟩)], [(0x3002, ['X'])],
     some ⟨[(1, [0x3000, 0x3001, 0x3002]), (6, [0x4000])], SourceInfo.ofText ['é', '\n', 'x']⟩⟩⟩

example : WF sample := by
  refine ⟨⟨by decide, trivial⟩, ?_, ?_⟩
  · intro b hb
    simp only [sample, List.mem_cons, List.mem_nil_iff, or_false] at hb
    rcases hb with rfl | rfl <;> decide
  · intro t ht
    simp only [sample, Option.some.injEq] at ht
    subst ht
    refine ⟨by decide, ?_, by decide, ?_, ?_, Or.inl (by simp)⟩
    · intro e he
      simp only [List.mem_cons, List.mem_nil_iff, or_false] at he
      rcases he with rfl | rfl <;> decide
    · intro e he
      simp only [List.mem_cons, List.mem_nil_iff, or_false] at he
      subst he; decide
    · intro d hd
      simp only [Option.some.injEq] at hd
      subst hd
      refine ⟨⟨by decide, trivial⟩, by decide, ?_, rfl, by decide⟩
      intro e he
      simp only [List.mem_cons, List.mem_nil_iff, or_false] at he
      rcases he with rfl | rfl <;> decide

/-- **every assembled file round-trips** (assembling without debug symbols): the object file `assemble` returns is well-formed,
    hence `deserialize (serialize obj) = some obj`.  Hypotheses (guaranteed by lexer and parser for any real source): string
    literals below 64 K, label positions and label names that fit 64 bits. -/
theorem assembled_roundtrip (stmts : List Stmt) (obj : ObjFile) (h : assemble stmts none = .ok obj)
    (hstr : ∀ s ∈ stmts, ∀ x, s.nucleus = .directive (.stringz x) → blen x + 1 < 65536)
    (hlab : LabelsBounded stmts) (hfill : FillLabelsBounded stmts) :
    WF obj ∧ deserialize (serialize obj) = some obj :=
  ⟨assembled_wf_nodebug stmts obj h hstr hlab hfill, roundtrip obj (assembled_wf_nodebug stmts obj h hstr hlab hfill)⟩

/-- **every file assembled with debug symbols round-trips** as well: the line map's blocks are strictly ascending because
    `lookup_line` is injective (C24), within the field widths because the location counter never wraps.  Additional hypotheses
    (all guaranteed for parser output): statements on increasing lines, every statement with a line entry at least one word
    long, the source below 2^64 bytes. -/
theorem assembled_debug_roundtrip (stmts : List Stmt) (src : List Char) (obj : ObjFile) (h : assemble stmts (some src) = .ok obj)
    (hstr : ∀ s ∈ stmts, ∀ x, s.nucleus = .directive (.stringz x) → blen x + 1 < 65536)
    (hlab : LabelsBounded stmts) (hfill : FillLabelsBounded stmts)
    (hsized : ∀ s ∈ stmts, noLine s.nucleus = false → 1 ≤ s.nucleus.wordLen.toNat)
    (hl : LinesFrom (SourceInfo.ofText src) (SourceInfo.ofText src).countLines 0 stmts) (hsrc : blen src < 2 ^ 64) :
    WF obj ∧ deserialize (serialize obj) = some obj :=
  ⟨assembled_wf_debug stmts src obj h hstr hlab hfill hsized hl hsrc,
   roundtrip obj (assembled_wf_debug stmts src obj h hstr hlab hfill hsized hl hsrc)⟩

/-- **source level**: for ANY source text (below 2^64/12 bytes) that parses and assembles — with or without debug symbols —
    the object file is well-formed and deserializing its serialization gives it back.  All side hypotheses of
    `assembled_roundtrip` / `assembled_debug_roundtrip` are facts about parser output (Lemmas/ParserDischarge.lean). -/
theorem source_roundtrip (src : List Char) (stmts : List Stmt) (dbg : Bool) (obj : ObjFile) (hp : parseAst src = .ok stmts)
    (hsrc : 12 * blen src < 2 ^ 64) (h : assemble stmts (if dbg then some src else none) = .ok obj) :
    WF obj ∧ deserialize (serialize obj) = some obj := by
  obtain ⟨hstr, hsized, hlab, hfill, hl⟩ := parsed_program_facts src stmts hp hsrc
  cases dbg with
  | false => exact assembled_roundtrip stmts obj h hstr hlab hfill
  | true => exact assembled_debug_roundtrip stmts src obj h hstr hlab hfill hsized hl (by omega)

def obligations : List Lean.Name :=
  [``roundtrip, ``source_roundtrip, ``Lc3V.parsed_program_facts, ``Lc3V.upperC_length, ``assembled_roundtrip, ``assembled_debug_roundtrip, ``Lc3V.assembled_wf_debug, ``Lc3V.assembled_wf_nodebug, ``wf_empty, ``Lc3V.Bin.deserialize_serialize, ``Lc3V.Bin.fromUtf8_utf8, ``Lc3V.Bin.unle_le, ``Lc3V.Bin.chunks3_words,
   ``Lc3V.Bin.chunks2_words, ``Lc3V.Bin.read_block, ``Lc3V.Bin.read_label, ``Lc3V.Bin.read_lineBlock, ``Lc3V.Bin.read_src,
   ``Lc3V.Bin.read_rel, ``Lc3V.Bin.readChunks_items, ``Lc3V.Bin.fromBlocks_self, ``Lc3V.insAll_nil]

end Lc3V.C17
