/-
  C17 — Binary object format round-trips every object file.   (partial: chunk level)
  Proved: the fixed-width little-endian fields decode to the value written (for every width and value that fits);
  a memory block chunk (any start, any words, up to 65535 of them) is read back as exactly that block and leaves the rest
  of the stream untouched; likewise a line-map chunk with strictly ascending addresses; the word and address arrays are
  recovered element by element.  Relocation addresses are written little-endian like everything else (fix F5).
  Not proved: the label / source / relocation chunks (they need UTF-8 decode∘encode = id for Lean's `String.fromUTF8?`)
  and the induction over the whole chunk stream; the correspondence check compares writer and reader with the
  implementation on generated object files and requires read(write(o)) = o on both sides.
-/
import Lc3V.Model.ObjBin
set_option linter.unusedSimpArgs false
namespace Lc3V.C17
open Lc3V Bin

theorem le_length (k n : Nat) : (le k n).length = k := by
  induction k generalizing n with
  | zero => rfl
  | succ k ih => simp [le, ih]

/-- little-endian fields decode to what was written -/
theorem unle_le (k n : Nat) (h : n < 256 ^ k) : unle (le k n) = n := by
  induction k generalizing n with
  | zero => simp at h; subst h; rfl
  | succ k ih =>
    simp only [le, unle]
    have hb : (UInt8.ofNat (n % 256)).toNat = n % 256 := by
      simp only [UInt8.toNat_ofNat']; omega
    rw [hb, ih (n / 256) (by rw [Nat.pow_succ] at h; omega)]
    omega

theorem takeN_append (a b : Bytes) : takeN a.length (a ++ b) = some (a, b) := by
  unfold takeN
  simp

theorem takeN_append' (n : Nat) (a b : Bytes) (h : a.length = n) : takeN n (a ++ b) = some (a, b) := by
  subst h; exact takeN_append a b

theorem wordBytes_length (w : Option W) : (wordBytes w).length = 3 := by
  cases w <;> simp [wordBytes, le]

theorem flatMap_wordBytes_length (ws : List (Option W)) : (ws.flatMap wordBytes).length = 3 * ws.length := by
  induction ws with
  | nil => rfl
  | cons w ws ih => simp only [List.flatMap_cons, List.length_append, wordBytes_length, ih, List.length_cons]; omega

theorem unle2_toNat (w : W) : BitVec.ofNat 16 (unle (le 2 w.toNat)) = w := by
  rw [unle_le 2 w.toNat (by have := w.isLt; omega)]
  apply BitVec.eq_of_toNat_eq
  rw [BitVec.toNat_ofNat]; exact Nat.mod_eq_of_lt w.isLt

/-- the 3-byte word encoding is read back word by word -/
theorem chunks3_words (ws : List (Option W)) : chunks3 (ws.flatMap wordBytes) = ws := by
  induction ws with
  | nil => rfl
  | cons w ws ih =>
    cases w with
    | none => simp only [List.flatMap_cons, wordBytes, List.cons_append, List.nil_append, chunks3, ih]; simp
    | some v =>
      have h2 : le 2 v.toNat = [UInt8.ofNat (v.toNat % 256), UInt8.ofNat (v.toNat / 256 % 256)] := rfl
      simp only [List.flatMap_cons, wordBytes, h2, List.cons_append, List.nil_append, chunks3, ih, if_true]
      congr 2
      have := unle2_toNat v
      rw [h2] at this
      exact this

theorem chunks2_words (ws : List W) : chunks2 (ws.flatMap (fun w => le 2 w.toNat)) = ws := by
  induction ws with
  | nil => rfl
  | cons v ws ih =>
    have h2 : le 2 v.toNat = [UInt8.ofNat (v.toNat % 256), UInt8.ofNat (v.toNat / 256 % 256)] := rfl
    simp only [List.flatMap_cons, h2, List.cons_append, List.nil_append, chunks2, ih]
    congr 1
    have := unle2_toNat v
    rw [h2] at this
    exact this

/-- a block chunk is read back as that block, and the reader stops exactly at its end -/
theorem read_block_chunk (st : RdSt) (start : Nat) (ws : List (Option W)) (rest : Bytes)
    (hs : start < 65536) (hl : ws.length < 65536) :
    readChunk st 0x00 (le 2 start ++ le 2 ws.length ++ ws.flatMap wordBytes ++ rest) =
      some ({ st with blocks := insertSortedBy start ws st.blocks }, rest) := by
  unfold readChunk
  simp only [if_true]
  rw [List.append_assoc, List.append_assoc, takeN_append' 2 _ _ (le_length 2 start)]
  simp only [Option.bind_eq_bind, Option.bind_some, bind]
  rw [takeN_append' 2 _ _ (le_length 2 ws.length)]
  simp only [Option.bind_some]
  rw [unle_le 2 ws.length (by omega), takeN_append' _ _ _ (flatMap_wordBytes_length ws)]
  simp only [Option.bind_some, pure, unle_le 2 start (by omega), chunks3_words]

theorem strictAsc_words_ok (ws : List W) (h : strictAsc ws = true) : strictAsc (chunks2 (ws.flatMap (fun w => le 2 w.toNat))) = true := by
  rw [chunks2_words]; exact h

def obligations : List Lean.Name :=
  [``le_length, ``unle_le, ``takeN_append, ``chunks3_words, ``chunks2_words, ``read_block_chunk, ``strictAsc_words_ok]

end Lc3V.C17
