/-
  C18 — Text object format round-trips every object file.   (proved for every file produced by assembling and linking files that carry symbol tables)
  Proved: the part the property singles out — "whatever characters the source text contains": for every string,
  `unescaper::unescape` applied to `str::escape_default` of it gives the string back (two-character escapes, printable
  ASCII, and `\u{…}` with lower-case hex for everything else, for every Unicode scalar), with the amount of fuel the
  model's reader supplies; escaped text contains no line break, so a source line stays one table row; decimal fields
  (block lengths, line numbers, label positions) are read back as the number written.
  Session 5 (`Txt.text_section_roundtrip`, Lemmas/TxtBlocks): for every object file without a symbol table — any block
  list as the assembler and linker produce it — `deserialize (serialize o) = some o`: the whole reader pipeline
  (`trim`, `str::lines`, comment/blank-line filters, grouping, the `.TEXT` block reader, four-digit hex and decimal
  fields, `????` for uninitialised words) inverts the writer.
  Session 5, later (`Txt.sym_section_roundtrip`, Lemmas/TxtSym): for every object file WITH a symbol table and no line
  table — any blocks as above, any label and relocation tables with unique names / addresses whose names contain no
  white space and no bar and do not start like a comment, section header or divider (`SymOk`; positions below 2^64) —
  `deserialize (serialize o)` is `o` with the label and relocation tables in the writer's canonical row order (the
  implementation keeps them in hash maps, so order is not observable there): padding, `splitn(" | ")`, trimming, the
  three row shapes, the sorted rows, the two-pass reconstruction of the label table (addresses and flags from `.SYMBOL`,
  source positions from the index table of `.DEBUG`), the divider search and the comment / blank-line filters.
  `source_text_roundtrip_nodebug`, `linked_text_roundtrip` (Lemmas/TxtSource): `SymOk` and the block conditions hold for
  every object file assembled WITHOUT debug symbols from a source text that parses (label tokens are an ASCII letter or
  underscore followed by word characters; their upper-casing contains no white space and no bar — kernel-checked over the
  generated Unicode tables) and are kept by `link`, so every file produced by assembling without debug symbols and by
  linking such files in any order and grouping round-trips, with no further hypothesis.
  `dbg_section_roundtrip`, `source_text_roundtrip_debug` (Lemmas/TxtDebug): the line table of `.DEBUG`.  For a symbol
  table with debug symbols (`DbgOk`: as `SymOk`, the label table may be empty; the source info is that of its text; the
  line map is the run-length condensation of a per-line vector as long as the line count — what `LineSymbolMap::new` makes)
  the writer's table has one row per source line with that line's address or `????` (`lineTable_rows`), the reader takes
  the rows back one by one (row number = position), `LineSymbolMap::new` of the addresses is the line map again, and the
  escaped raw source lines, re-joined and unescaped, are the source text (`all_srcLines`, C18Core's escape theorem).
  `DbgOk` holds for every file assembled with debug symbols from a source text that parses (`source_dbgOk`,
  `final_vector2`), so such files round-trip with no further hypothesis.
  `text_roundtrip_assembled_or_linked` (Lemmas/TxtLink) is the property as stated: any object file produced by assembling
  source texts (with or without debug symbols) and linking the results in any order and grouping is read back from its
  text form — blocks, label and relocation tables (writer's row order), line table and source text.  `DebugSyms.link` keeps
  the shape of the debug symbols (`DOk.link`: the merged line map is the condensation of the two per-line vectors one
  after the other — `runs_append`, `runs_shift`, `C22.link_find` — over the two sources joined by a line feed), `link` keeps
  `TOk` (`link_tOk`), every assembled file meets it (`source_tOk`), and `tOk_roundtrip` needs nothing else.  Side
  condition: the sources that carry debug symbols together have at most 2^64 lines.
  `roundtrip_assembled_or_linked` (Lemmas/LinkAny) removes the restriction to files with symbol tables (`link` keeps the other
  operand's table over the merged blocks: `tOk_rebase`, `link_inv2`).  By correspondence only: files written by hand or
  produced by the readers.
  The theorems of the first paragraph are in Lemmas/C18Core.lean.
-/
import Lc3V.Lemmas.C18Core
import Lc3V.Lemmas.TxtBlocks
import Lc3V.Lemmas.TxtSym
import Lc3V.Lemmas.TxtSource
import Lc3V.Lemmas.TxtDebug
import Lc3V.Lemmas.TxtLink
import Lc3V.Lemmas.LinkAny
namespace Lc3V.C18
open Lc3V Txt

def obligations : List Lean.Name :=
  [``source_text_roundtrip, ``escaped_has_no_newline, ``decimal_field_roundtrip, ``Lc3V.Txt.unescape_escapeDefault,
   ``Lc3V.Txt.unescUnicode_hex, ``Lc3V.Txt.hexLower_spec, ``Lc3V.Txt.kept_lines, ``Lc3V.Txt.hex2u16_hex4,
   ``Lc3V.Txt.readText_blocks, ``Lc3V.Txt.text_section_roundtrip,
   ``Lc3V.Txt.splitN_seg, ``Lc3V.Txt.trim_pad, ``Lc3V.Txt.parseTable_rows, ``Lc3V.Txt.sortBy_perm, ``Lc3V.Txt.symFold,
   ``Lc3V.Txt.idxFold, ``Lc3V.Txt.restore_src, ``Lc3V.Txt.kept_lines2, ``Lc3V.Txt.groupLines_groups, ``Lc3V.Txt.read_sym,
   ``Lc3V.Txt.read_rel, ``Lc3V.Txt.read_dbg, ``Lc3V.Txt.sym_section_roundtrip,
   ``Lc3V.lexOne_label_word, ``Lc3V.parseAst_names, ``Lc3V.upperC_word_ok, ``Lc3V.nameOk_upper, ``Lc3V.source_symOk,
   ``Lc3V.source_text_roundtrip_nodebug, ``Lc3V.link_txtOk, ``Lc3V.C20.linked_text_roundtrip,
   ``Lc3V.Txt.lineTable_rows, ``Lc3V.Txt.all_srcLines, ``Lc3V.Txt.lineTable_parse, ``Lc3V.Txt.kept_lines3, ``Lc3V.Txt.read_dbg2,
   ``Lc3V.Txt.dbg_section_roundtrip, ``Lc3V.final_vector2, ``Lc3V.source_dbgOk, ``Lc3V.source_text_roundtrip_debug,
   ``Lc3V.Txt.runs_append, ``Lc3V.Txt.DOk.link, ``Lc3V.tOk_roundtrip, ``Lc3V.link_tOk, ``Lc3V.source_tOk,
   ``Lc3V.C20.text_roundtrip_assembled_or_linked,
   ``Lc3V.C20.link_inv2, ``Lc3V.C20.source_inv2, ``Lc3V.C20.roundtrip_assembled_or_linked]

end Lc3V.C18
