/-
  C18 — Text object format round-trips every object file.   (partial)
  Proved: the part the property singles out — "whatever characters the source text contains": for every string,
  `unescaper::unescape` applied to `str::escape_default` of it gives the string back (two-character escapes, printable
  ASCII, and `\u{…}` with lower-case hex for everything else, for every Unicode scalar), with the amount of fuel the
  model's reader supplies; escaped text contains no line break, so a source line stays one table row; decimal fields
  (block lengths, line numbers, label positions) are read back as the number written.
  Session 5 (`Txt.text_section_roundtrip`, Lemmas/TxtBlocks): for every object file without a symbol table — any block
  list as the assembler and linker produce it — `deserialize (serialize o) = some o`: the whole reader pipeline
  (`trim`, `str::lines`, comment/blank-line filters, grouping, the `.TEXT` block reader, four-digit hex and decimal
  fields, `????` for uninitialised words) inverts the writer.
  Not proved: the symbol, linker-info and debug tables (padding, `splitn`, trimming, sorting of rows) and hence the
  round trip of files *with* a symbol table; these are exercised by the correspondence check: the model's writer is
  compared byte for byte with the implementation's and both readers must return the original object file.
  The theorems of the first paragraph are in Lemmas/C18Core.lean.
-/
import Lc3V.Lemmas.C18Core
import Lc3V.Lemmas.TxtBlocks
namespace Lc3V.C18
open Lc3V Txt

def obligations : List Lean.Name :=
  [``source_text_roundtrip, ``escaped_has_no_newline, ``decimal_field_roundtrip, ``Lc3V.Txt.unescape_escapeDefault,
   ``Lc3V.Txt.unescUnicode_hex, ``Lc3V.Txt.hexLower_spec, ``Lc3V.Txt.kept_lines, ``Lc3V.Txt.hex2u16_hex4,
   ``Lc3V.Txt.readText_blocks, ``Lc3V.Txt.text_section_roundtrip]

end Lc3V.C18
