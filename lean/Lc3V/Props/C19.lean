/-
  C19 — Reading untrusted object files never panics.   (partial; mostly decided by the correspondence check)
  The model's readers, `link`, the writers and `load` are total functions, so "never panics" is not a statement the
  model can express about the Rust code; what is proved here are the guards that make the Rust code's panic sites
  unreachable, each stated on the model: slices handed to `map_chunks` have exactly the announced length (its
  `assert_eq!(len % N, 0)` and `try_from(..).unwrap()` hold); a wrong magic number, an unknown chunk identifier or a
  truncated chunk reject the input; the run-length condensation of the line table never subtracts below zero; a
  relocation outside every block is skipped by `link` (fix F8); the `.DEBUG` section with a single divider is accepted
  without the slice pattern that used to be `unreachable!` (fix F7).  Arithmetic that could overflow is modelled with
  the saturating / wrapping / widened operations the fixes F9, F10, F22 introduced.
  Decided by the check: the implementation is run under `catch_unwind` on mutated and hand-shaped binary and text inputs,
  every accepted object is re-serialized, linked, loaded and queried, and every answer is compared with the model.
-/
import Lc3V.Model.ObjBin
import Lc3V.Model.ObjTxt
set_option linter.unusedSimpArgs false
namespace Lc3V.C19
open Lc3V

/-- `take_slice(n)` returns exactly `n` bytes and the untouched remainder, or rejects -/
theorem takeN_spec (n : Nat) (bs a b : Bin.Bytes) (h : Bin.takeN n bs = some (a, b)) : a.length = n ∧ a ++ b = bs := by
  unfold Bin.takeN at h
  split at h
  · cases h; exact ⟨by simp; omega, List.take_append_drop n bs⟩
  · cases h

theorem takeN_none (n : Nat) (bs : Bin.Bytes) (h : bs.length < n) : Bin.takeN n bs = none := by
  unfold Bin.takeN; rw [if_neg (by omega)]

/-- a wrong magic number or version rejects the input -/
theorem bad_magic_rejected (bs : Bin.Bytes) (h : Bin.magic.isPrefixOf bs = false) : Bin.deserialize bs = none := by
  unfold Bin.deserialize Bin.stripPrefix
  simp [h]

/-- an unknown chunk identifier rejects the input -/
theorem unknown_chunk_rejected (st : Bin.RdSt) (id : UInt8) (bs : Bin.Bytes) (h : 4 < id.toNat) : Bin.readChunk st id bs = none := by
  unfold Bin.readChunk
  have n0 : id ≠ 0x00 := by intro e; rw [e] at h; simp at h
  have n1 : id ≠ 0x01 := by intro e; rw [e] at h; simp at h
  have n2 : id ≠ 0x02 := by intro e; rw [e] at h; simp at h
  have n3 : id ≠ 0x03 := by intro e; rw [e] at h; simp at h
  have n4 : id ≠ 0x04 := by intro e; rw [e] at h; simp at h
  simp only [n0, n1, n2, n3, n4, if_false]

/-- the line-table condensation: an open run is never longer than the number of lines seen, so `i - run.len()` is exact -/
def RunFits (i : Nat) (cur : Option (List W)) : Prop := ∀ bl, cur = some bl → bl.length ≤ i

theorem condense_run_fits : ∀ (lines : List (Option W)) (i : Nat) (cur : Option (List W)) (acc : List (Nat × List W)),
    RunFits i cur → (∀ e ∈ acc, e.1 + e.2.length ≤ i) →
    ∀ e ∈ condenseLines lines i cur acc, e.1 + e.2.length ≤ i + lines.length := by
  intro lines
  induction lines with
  | nil => intro i cur acc _ hacc e he; simp only [condenseLines, List.mem_reverse] at he; have := hacc e he; simpa using this
  | cons x xs ih =>
    intro i cur acc hfit hacc e he
    cases x with
    | some a =>
      simp only [condenseLines] at he
      have := ih (i + 1) (some (cur.getD [] ++ [a])) acc
        (by intro bl hbl; cases hbl; cases cur with
            | none => simp
            | some b => have := hfit b rfl; simp; omega)
        (by intro e he; have := hacc e he; omega) e he
      simp only [List.length_cons]; omega
    | none =>
      cases cur with
      | some bl =>
        simp only [condenseLines] at he
        have hb := hfit bl rfl
        have := ih (i + 1) none ((i - bl.length, bl) :: acc) (by intro b hb; cases hb)
          (by intro e he
              rcases List.mem_cons.mp he with rfl | he
              · simp only; omega
              · have := hacc e he; omega) e he
        simp only [List.length_cons]; omega
      | none =>
        simp only [condenseLines] at he
        have := ih (i + 1) none acc (by intro b hb; cases hb) (by intro e he; have := hacc e he; omega) e he
        simp only [List.length_cons]; omega

/-- a relocation that no block covers leaves the image unchanged -/
theorem patch_outside_is_skipped (m : Blocks) (addr v : W)
    (h : ∀ e ∈ m, e.1 ≤ addr.toNat → e.2.length ≤ addr.toNat - e.1) : patchWord m addr v = m := by
  unfold patchWord
  cases hl : (m.filter (fun e => e.1 ≤ addr.toNat)).getLast? with
  | none => rfl
  | some p =>
    obtain ⟨start, block⟩ := p
    have hm := List.mem_of_getLast? hl
    have hf := List.mem_filter.mp hm
    have := h (start, block) hf.1 (by simpa using hf.2)
    simp only at this
    simp only
    rw [if_neg (by omega)]

/-- a `.DEBUG` section with a single divider: label table only, no line table, accepted (used to be `unreachable!`) -/
example : (Txt.readGroup {} [".DEBUG".toList, "LABEL | INDEX".toList, "X     | 3".toList, Txt.divider]).isSome = true := by
  decide

def obligations : List Lean.Name :=
  [``takeN_spec, ``takeN_none, ``bad_magic_rejected, ``unknown_chunk_rejected, ``condense_run_fits, ``patch_outside_is_skipped]

end Lc3V.C19
