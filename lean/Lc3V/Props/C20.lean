/-
  C20 — Linking unions images, resolves externals, and is order-independent.   (success condition, order independence, grouping and the image description proved)
  Proved: the block part of `link` for all object files whose block maps have strictly increasing starts (every map the
  assembler, the readers or `link` itself produces): the result of inserting B's blocks into A is sorted, holds exactly
  the blocks of A and of B when no start occurs in both, the duplicate flag is raised exactly when a start occurs in
  both, and therefore `linkBlocks a b = linkBlocks b a` — success, failure and the resulting block map do not depend on the
  order.  Overlap of two ranges is symmetric.  An external declaration met by a definition is resolved to the defining
  address from either side and consumes exactly that label's relocation entries (C21.link_resolves); patches set the
  addressed word (C21.patch_sets_word).
  `linkBlocks_ok_iff`: the block part succeeds exactly when no start occurs in both files and the union of the blocks is
  pairwise disjoint (on a sorted map the neighbour-only overlap test finds every overlapping pair: `adjacent_iff_pairwise`);
  `linkBlocks_members`: the result then holds exactly the blocks of both files.
  `labels_order_independent` (Lemmas/LinkPatch.lean `linkFold_pointwise`): the merged label table is determined key by key
  (A's entry, B's entry ↦ combined entry), so when both orders succeed every key has the same address and external flag.
  `link_ok_iff` (Lemmas/LinkOk.lean): linking two files with symbol tables succeeds exactly when no block start occurs in
  both, the union of the blocks is pairwise disjoint, and no label is defined (non-external) in both files at different
  addresses — the property's success condition.
  `link_order_independent` (Lemmas/LinkRel.lean): the label fold is described exactly (`linkFold_rel`: the final relocation
  list is the initial one without the entries of resolved labels; the patches are the initial entries of each resolved label
  with the defining side's address), both descriptions are symmetric in the two files, and a patched image depends only on
  the set of patches (`patched_image_of_set`); hence `link a b` and `link b a` give the same block map, the same address and
  external flag for every label, the same pending relocation entries and the same memory image cell by cell.
  Session 5 (Lemmas/LinkGroup, LinkImage, LinkSource; the theorems above now live in Lemmas/C20Core):
  `linkBlocks_grouping`: `(a ∪ b) ∪ c` and `a ∪ (b ∪ c)` succeed together in the block part and give the same block map;
  `labels_grouping`, `labels_grouping_ok`: the label folds succeed together and give every key the same address and flag;
  `link_grouping_ok`: for whole files with symbol tables the two groupings link or fail together (the block part looks
  at starts and lengths only — `skel` — so the patches applied in between do not matter).
  `link_spec`: linking two well-formed files (`FileWF`) gives a well-formed file whose memory image is the union of the
  images with every relocation entry whose label the other file defines replaced by the defining address, whose pending
  relocations are exactly the unresolved entries and whose definitions / external declarations are the merged ones
  (`LinkSpec`, symmetric in the two files) — the property's second sentence.
  `link3_left`, `link3_right`, `link_grouping_image`: two links in a row, in either grouping, have one and the same
  description from the three inputs (`Link3Spec`), hence the same image cell by cell, the same pending relocations, the
  same defined labels with the same addresses and the same external declarations.  `link_order_image`: the same for the two
  orders of two files, from the symmetric description alone.
  `source_fileWF`: every object file assembled from source text that parses is `FileWF` (with its symbol table), so
  `source_link_grouping` / `source_link_two` state order and grouping independence for any source texts with no
  hypothesis beyond "parses, assembles, carries a symbol table".
  `link_tree_independent` (Lemmas/LinkTree): for ANY number of files — a link tree fixes the order of the files and the
  bracketing; every tree whose links all succeed satisfies one description in terms of the set of its leaves (`LTree.spec`,
  `NSpec`, by `NSpec.combine` + `link_spec`), so two trees over the same set of files give the same image, pending
  relocations, definitions and declarations; `source_link_tree_independent`: the same for files assembled from source.
  `LTree.ok_iff`, `link_tree_ok_independent`: a link tree succeeds exactly when its leaves are pairwise compatible (blocks
  of different files share no start and do not overlap; no label defined at different addresses in two files) — the
  property's first sentence for any number of files — so success does not depend on order or grouping either.
  Checked by correspondence only: files whose symbol table was dropped (no externals, no
  debug symbols: `link` then merges blocks only — `linkBlocks_grouping` covers that case), and files produced by the
  readers rather than the assembler (for those `FileWF` is a hypothesis); the check links generated sets of 2–4 files in
  every order and bracketing and compares outcomes with each other and with a reference union.
-/
import Lc3V.Lemmas.C20Core
import Lc3V.Lemmas.LinkGroup
import Lc3V.Lemmas.LinkImage
import Lc3V.Lemmas.LinkTree
import Lc3V.Lemmas.LinkSource
namespace Lc3V.C20
open Lc3V

def obligations : List Lean.Name :=
  [``link_order_independent, ``link_ok_iff, ``Lc3V.link_order_independent, ``Lc3V.linkFold_rel, ``Lc3V.rel_order_independent, ``Lc3V.relocs_mem,
   ``Lc3V.patched_image_of_set, ``Lc3V.linkFold_ok_iff,
   ``labels_order_independent, ``Lc3V.linkFold_pointwise, ``adjacent_iff_pairwise, ``linkBlocks_ok_iff, ``linkBlocks_members, ``rangesOverlap_comm, ``Lc3V.mem_insAll, ``linkFold_dup, ``linkBlocks_comm, ``linkBlocks_sorted, ``C21.link_resolves, ``C21.patch_sets_word,
   ``Lc3V.mem_insertSortedBy, ``Lc3V.sorted_insertSortedBy, ``Lc3V.sorted_ext,
   ``linkBlocks_grouping, ``labels_grouping, ``labels_grouping_ok, ``clash_grouping, ``linkBlocks_skel, ``link_grouping_ok,
   ``link_grouping_outcome, ``cell_iff, ``linkBlocks_cells, ``link_spec, ``spec3, ``link3_left, ``link3_right,
   ``link_grouping_image, ``link_order_image, ``rel_addr_event, ``source_fileWF, ``source_link_grouping, ``source_link_two,
   ``NSpec.single, ``NSpec.combine, ``LTree.spec, ``NSpec.determines, ``link_tree_independent, ``source_link_tree_independent,
   ``blocks_ok_iff, ``LTree.skel_spec, ``link_ok_leaves, ``LTree.ok_iff, ``link_tree_ok_independent, ``source_link_tree_ok_independent]

end Lc3V.C20
