/-
  C20 — Linking unions images, resolves externals, and is order-independent.   (partial)
  Proved: the block part of `link` for all object files whose block maps have strictly increasing starts (every map the
  assembler, the readers or `link` itself produces): the result of inserting B's blocks into A is sorted, holds exactly
  the blocks of A and of B when no start occurs in both, the duplicate flag is raised exactly when a start occurs in
  both, and therefore `linkBlocks a b = linkBlocks b a` — success, failure and the resulting block map do not depend on the
  order.  Overlap of two ranges is symmetric.  An external declaration met by a definition is resolved to the defining
  address from either side and consumes exactly that label's relocation entries (C21.link_resolves); patches set the
  addressed word (C21.patch_sets_word).
  Not proved: order-independence of the merged label / relocation tables and of nested links (associativity), and that
  the neighbour-only overlap test finds every overlapping pair; the correspondence check links generated sets of 2–4 files
  in every order and bracketing and compares outcomes with each other and with a reference union.
-/
import Lc3V.Lemmas.SortedMap
import Lc3V.Props.C21
set_option linter.unusedSimpArgs false
namespace Lc3V.C20
open Lc3V

theorem rangesOverlap_comm (a0 a1 b0 b1 : Nat) : rangesOverlap a0 a1 b0 b1 = rangesOverlap b0 b1 a0 a1 := by
  unfold rangesOverlap; rw [Bool.and_comm]

def linkFold (a b : Blocks) (d : Bool) : Blocks × Bool :=
  b.foldl (fun (acc : Blocks × Bool) e => ((insertBlockRaw e.1 e.2 acc.1).1, acc.2 || (insertBlockRaw e.1 e.2 acc.1).2)) (a, d)

theorem linkFold_fst (b : Blocks) : ∀ (a : Blocks) (d : Bool), (linkFold a b d).1 = insAll a b := by
  induction b with
  | nil => intro a d; rfl
  | cons y ys ih => intro a d; simp only [linkFold, insAll, List.foldl_cons, insertBlockRaw] at *; exact ih _ _

theorem any_key_iff (m : Blocks) (k : Nat) : (m.any (fun e => e.1 == k)) = true ↔ ∃ x ∈ m, x.1 = k := by
  simp [List.any_eq_true]

/-- the duplicate flag: raised exactly when some start occurs in both files -/
theorem linkFold_dup (b : Blocks) : ∀ (a : Blocks) (d : Bool), SortedKeys a → SortedKeys b →
    ((linkFold a b d).2 = true ↔ d = true ∨ CommonKey a b) := by
  induction b with
  | nil => intro a d _ _; simp [linkFold, CommonKey]
  | cons y ys ih =>
    intro a d ha hb
    have step : linkFold a (y :: ys) d = linkFold (insertSortedBy y.1 y.2 a) ys (d || a.any (fun e => e.1 == y.1)) := by
      simp only [linkFold, List.foldl_cons, insertBlockRaw]
    rw [step, ih _ _ (sorted_insertSortedBy _ _ _ ha) hb.tail]
    constructor
    · rintro (h | ⟨z, hz, w, hw, e⟩)
      · rcases Bool.or_eq_true _ _ |>.mp h with h | h
        · exact Or.inl h
        · obtain ⟨x, hx, hk⟩ := (any_key_iff a y.1).mp h
          exact Or.inr ⟨x, hx, y, by simp, hk⟩
      · rcases (mem_insertSortedBy y.1 y.2 a ha z).mp hz with rfl | ⟨hz', _⟩
        · have := hb.head_lt w hw; simp only at e; omega
        · exact Or.inr ⟨z, hz', w, List.mem_cons_of_mem _ hw, e⟩
    · rintro (h | ⟨x, hx, w, hw, e⟩)
      · left; simp [h]
      · rcases List.mem_cons.mp hw with rfl | hw'
        · left; apply Bool.or_eq_true _ _ |>.mpr; right; exact (any_key_iff a w.1).mpr ⟨x, hx, e⟩
        · by_cases hk : x.1 = y.1
          · left; apply Bool.or_eq_true _ _ |>.mpr; right; exact (any_key_iff a y.1).mpr ⟨x, hx, hk⟩
          · right; exact ⟨x, (mem_insertSortedBy y.1 y.2 a ha x).mpr (Or.inr ⟨hx, hk⟩), w, hw', e⟩

theorem commonKey_comm (a b : Blocks) : CommonKey a b ↔ CommonKey b a := by
  constructor <;> (rintro ⟨x, hx, y, hy, e⟩; exact ⟨y, hy, x, hx, e.symm⟩)

/-- the block part of linking does not depend on the order of the two files -/
theorem linkBlocks_comm (a b : Blocks) (ha : SortedKeys a) (hb : SortedKeys b) : linkBlocks a b = linkBlocks b a := by
  have e1 : ∀ x y : Blocks, linkBlocks x y = (if (linkFold x y false).2 then .error ⟨.overlappingBlocks, [(0, 0)]⟩
      else if adjacentOverlap (linkFold x y false).1 then .error ⟨.overlappingBlocks, [(0, 0)]⟩ else .ok (linkFold x y false).1) := by
    intro x y; rfl
  rw [e1 a b, e1 b a]
  by_cases hc : CommonKey a b
  · have h1 := (linkFold_dup b a false ha hb).mpr (Or.inr hc)
    have h2 := (linkFold_dup a b false hb ha).mpr (Or.inr ((commonKey_comm a b).mp hc))
    rw [h1, h2]; rfl
  · have h1 : (linkFold a b false).2 = false := by
      cases h : (linkFold a b false).2 with
      | false => rfl
      | true => rcases (linkFold_dup b a false ha hb).mp h with h' | h'; cases h'; exact absurd h' hc
    have hc' : ¬ CommonKey b a := fun h => hc ((commonKey_comm a b).mpr h)
    have h2 : (linkFold b a false).2 = false := by
      cases h : (linkFold b a false).2 with
      | false => rfl
      | true => rcases (linkFold_dup a b false hb ha).mp h with h' | h'; cases h'; exact absurd h' hc'
    have heq : (linkFold a b false).1 = (linkFold b a false).1 := by
      rw [linkFold_fst, linkFold_fst]
      apply sorted_ext _ _ (sorted_insAll b a ha) (sorted_insAll a b hb)
      intro x
      rw [mem_insAll b a ha hb hc x, mem_insAll a b hb ha hc' x]
      exact Or.comm
    rw [h1, h2, heq]

/-- a successful link keeps the block map sorted, so results can be linked again -/
theorem linkBlocks_sorted (a b r : Blocks) (ha : SortedKeys a) (h : linkBlocks a b = .ok r) : SortedKeys r := by
  have e1 : linkBlocks a b = (if (linkFold a b false).2 then .error ⟨.overlappingBlocks, [(0, 0)]⟩
      else if adjacentOverlap (linkFold a b false).1 then .error ⟨.overlappingBlocks, [(0, 0)]⟩ else .ok (linkFold a b false).1) := rfl
  rw [e1] at h
  split at h
  · cases h
  · split at h
    · cases h
    · cases h; rw [linkFold_fst]; exact sorted_insAll b a ha

def obligations : List Lean.Name :=
  [``rangesOverlap_comm, ``Lc3V.mem_insAll, ``linkFold_dup, ``linkBlocks_comm, ``linkBlocks_sorted, ``C21.link_resolves, ``C21.patch_sets_word,
   ``Lc3V.mem_insertSortedBy, ``Lc3V.sorted_insertSortedBy, ``Lc3V.sorted_ext]

end Lc3V.C20
