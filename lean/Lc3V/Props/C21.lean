/-
  C21 — External references are never silently left unresolved.   (both halves proved; source level for single files)
  Proved: after pass 1 every relocation entry names a label that is external in the final label table (so entries are
  created independently of whether the `.external` comes before or after the `.fill`, fix F11, and dropped for local
  labels); the object file keeps its symbol table whenever an external label is declared, with or without debug
  symbols (fix F12); loading a file that still has an external label fails with UnresolvedExternal and changes nothing;
  when linking meets a label that is external on one side and defined on the other, the label becomes defined, exactly
  the relocation entries of that label are consumed and each is turned into a patch of the defining address; a patch
  inside a block sets exactly that word.
  Proved end to end for the first half of the property: a program with an `.external` declaration of a name not bound
  earlier assembles (with or without debug symbols) to an object file whose loading is refused
  (`unresolved_external_refuses_load`).
  Proved for the second half (`link_fills_external`, Lemmas/LinkPatch.lean): when file A holds the relocation entry `(A, K)` of
  an external `K` and file B defines `K` at `V`, the symbol-table part of `link` can only succeed with an image that holds `V`
  at `A` (the label fold produces the patch `(A, V)` and no other patch at `A`; patches at other addresses do not disturb it).
  **Source level** (`source_fill_external_owns_entry`, Lemmas/RelOwn.lean + the parser facts): for ANY source text that parses
  and assembles (with or without debug symbols), every `.fill LABEL` statement whose label is external at the end of pass 1
  sits in a block at address `origin + sizes before` and the file's relocation table holds `(that address, NAME)`; the
  symbol table is kept and loading the file is refused.  (No two memory-occupying statements share an address in an
  accepted program — pass 2's overlap check — so the entry recorded at the `.fill` is never overwritten; the order of
  `.external` and `.fill` is irrelevant because the external test is made at the end of the pass.)
  Together with `link_fills_external` this is the whole property at the level of one link step; nested links are covered
  by the correspondence check.
  Session 5 (Lemmas/LinkExternal; the theorems above now live in Lemmas/C21Core): whole-link composition.  For any number of
  files assembled from source and linked in any order and grouping (`C20.LTree`): `tree_fills_external` — a relocation entry
  `(X, K)` of one of the files and a definition of `K` at `V` in one of the files put `V` at `X` in the result and the entry
  is no longer pending; `tree_unresolved_refuses_load` — an entry whose label no linked file defines stays pending, the label
  stays external, the result lists external symbols and loading it fails with `UnresolvedExternal`, machine untouched.
  (`source_fill_external_owns_entry` says which entries an assembled file has: one per `.fill` of an external label.)
-/
import Lc3V.Lemmas.C21Core
import Lc3V.Lemmas.LinkExternal
namespace Lc3V.C21
open Lc3V

def obligations : List Lean.Name :=
  [``source_fill_external_owns_entry, ``Lc3V.fill_external_owns_entry, ``Lc3V.rel_survives, ``Lc3V.pass1Step_rel,
   ``link_fills_external, ``Lc3V.linkFold_resolves, ``Lc3V.patch_fold, ``rel_entries_are_external, ``fill_records_candidate, ``externals_keep_symbol_table, ``external_symbols_nonempty,
   ``load_refused, ``link_resolves, ``patch_sets_word, ``external_declared, ``unresolved_external_refuses_load,
   ``tree_fills_external, ``tree_unresolved_refuses_load, ``C20.LTree.spec, ``C20.link_spec, ``C20.source_fileWF]

end Lc3V.C21
