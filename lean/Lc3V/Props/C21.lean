/-
  C21 — External references are never silently left unresolved.   (partial)
  Proved: after pass 1 every relocation entry names a label that is external in the final label table (so entries are
  created independently of whether the `.external` comes before or after the `.fill`, fix F11, and dropped for local
  labels); the object file keeps its symbol table whenever an external label is declared, with or without debug
  symbols (fix F12); loading a file that still has an external label fails with UnresolvedExternal and changes nothing;
  when linking meets a label that is external on one side and defined on the other, the label becomes defined, exactly
  the relocation entries of that label are consumed and each is turned into a patch of the defining address; a patch
  inside a block sets exactly that word.
  Proved end to end for the first half of the property: a program with an `.external` declaration of a name not bound
  earlier assembles (with or without debug symbols) to an object file whose loading is refused
  (`unresolved_external_refuses_load`).
  Proved for the second half (`link_fills_external`, Lemmas/LinkPatch.lean): when file A holds the relocation entry `(A, K)` of
  an external `K` and file B defines `K` at `V`, the symbol-table part of `link` can only succeed with an image that holds `V`
  at `A` (the label fold produces the patch `(A, V)` and no other patch at `A`; patches at other addresses do not disturb it).
  Not proved: that every `.fill EXT` statement of a program owns a relocation entry at its address (the converse
  direction of `rel_entries_are_external`); checked by the oracle on generated programs.
-/
import Lc3V.Model.Asm
import Lc3V.Props.C29
import Lc3V.Lemmas.TwoPass
import Lc3V.Lemmas.LinkPatch
set_option linter.unusedSimpArgs false
namespace Lc3V.C21
open Lc3V

def isExternalIn (labels : List (Key × SymData)) (k : Key) : Bool :=
  match lookupKey labels k with | some ⟨_, _, true⟩ => true | _ => false

/-- every relocation entry of an assembled file names a label that is external at the end of pass 1 -/
theorem rel_entries_are_external (stmts : List Stmt) (src : Option (List Char)) (t : SymTab) (h : pass1 stmts src = .ok t) :
    ∀ e ∈ t.rel, isExternalIn t.labels e.2 = true := by
  unfold pass1 at h
  split at h
  · cases h
  · rename_i st hst
    unfold p1Finish at h
    split at h
    · cases h
    · cases h
      intro e he
      have := (List.mem_filter.mp he).2
      exact this

/-- a labelled `.fill` inside a block always records a candidate entry, whatever is known about the label at that point -/
theorem fill_records_candidate (st : P1) (stmt : Stmt) (labels : List (Key × SymData)) (l : Label) (cur : Cursor)
    (hn : stmt.nucleus = .directive (.fill (.label l))) (hc : st.cursor = some cur) :
    p1Special st stmt labels = .ok (st.cursor, labels, relInsert st.rel cur.lc (upperS l.name)) := by
  unfold p1Special
  simp only [hn, hc]

/-- the symbol table survives assembling without debug symbols when an external label is declared -/
theorem externals_keep_symbol_table (stmts : List Stmt) (t : SymTab) (debug : Bool) (o : ObjFile)
    (h : pass2 stmts t debug = .ok o) (he : t.labels.any (fun e => e.2.ext) = true) : o.sym = some t := by
  unfold pass2 at h
  split at h
  · cases h
  · cases h; simp [he]

/-- an object file with a symbol table lists its external labels; non-empty exactly when one is declared -/
theorem external_symbols_nonempty (o : ObjFile) (t : SymTab) (hs : o.sym = some t) (k : Key) (d : SymData)
    (hm : (k, d) ∈ t.labels) (he : d.ext = true) : o.externalSymbols ≠ [] := by
  unfold ObjFile.externalSymbols
  rw [hs]
  intro hnil
  have : k ∈ (t.labels.filter (fun e => e.2.ext)).map (·.1) := List.mem_map.mpr ⟨(k, d), List.mem_filter.mpr ⟨hm, he⟩, rfl⟩
  have hnil' : (t.labels.filter (fun e => e.2.ext)).map (·.1) = [] := hnil
  rw [hnil'] at this
  cases this

/-- loading is refused (and the machine untouched) while an external label is unresolved -/
theorem load_refused (s : Sim) (blocks : List (W × List (Option W))) :
    s.loadObj blocks true = (.error .unresolvedExternal, s) := (C29.load_frame s blocks true).2 rfl

/-- linking an external declaration with a definition: the label becomes the definition, its relocation entries (and only
    those) are consumed and become patches of the defining address -/
theorem link_resolves (st : LinkSt) (label : Key) (ad bd : SymData) (hl : lookupKey st.labels label = some ad)
    (hx : ad.ext ≠ bd.ext) :
    linkLabel st (label, bd) = .ok
      ⟨setKey st.labels label (if ad.ext then bd else ad), st.rel.filter (fun r => !(r.2 == label)),
       st.relocs ++ (st.rel.filter (fun r => r.2 == label)).map (fun r => (r.1, (if ad.ext then bd else ad).addr))⟩ := by
  unfold linkLabel
  dsimp only
  rw [hl]
  dsimp only
  have h1 : (ad.ext && bd.ext) = false := by cases ha : ad.ext <;> cases hb : bd.ext <;> simp_all
  have h2 : (ad.ext || bd.ext) = true := by cases ha : ad.ext <;> cases hb : bd.ext <;> simp_all
  simp only [h1, h2, Bool.false_eq_true, if_false, if_true, List.partition_eq_filter_filter]
  congr 2

/-- a patch at an address inside a block sets exactly that word -/
theorem patch_sets_word (start : Nat) (block : List (Option W)) (addr v : W) (h1 : start ≤ addr.toNat)
    (h2 : addr.toNat - start < block.length) :
    patchWord [(start, block)] addr v = [(start, block.set (addr.toNat - start) (some v))] := by
  unfold patchWord
  simp [h1, h2]

/-- an `.external` declaration of a name not bound before makes the name external in the label table after that statement -/
theorem external_declared (st st' : P1) (stmt : Stmt) (l : Label) (h : pass1Step st stmt = .ok st')
    (hn : stmt.nucleus = .directive (.external l)) (hl : stmt.labels = [])
    (hfresh : lookupKey st.labels (upperS l.name) = none) :
    ∃ d, lookupKey st'.labels (upperS l.name) = some d ∧ d.ext = true := by
  unfold pass1Step at h
  have h1 : p1Labels st stmt = .ok st.labels := by unfold p1Labels; simp [hl]
  rw [h1] at h
  dsimp only at h
  have h2 : p1Special st stmt st.labels = .ok (st.cursor, st.labels ++ [(upperS l.name, ⟨0, l.start, true⟩)], st.rel) := by
    unfold p1Special
    simp only [hn, addLabel, hfresh]
  rw [h2] at h
  dsimp only at h
  have hfin : st'.labels = st.labels ++ [(upperS l.name, ⟨0, l.start, true⟩)] := by
    unfold p1Advance at h
    split at h
    · cases h; rfl
    · dsimp only at h; split at h
      · cases h
      · cases h; rfl
  rw [hfin]
  exact ⟨_, C01.lookupKey_append_new _ _ _ hfresh, rfl⟩

/-- **never silently unresolved**: a program that declares a name external (not bound earlier in the file) assembles — with
    or without debug symbols — to an object file whose loading is refused with `UnresolvedExternal`, the machine unchanged -/
theorem unresolved_external_refuses_load (pre post : List Stmt) (stmt : Stmt) (l : Label) (src : Option (List Char)) (o : ObjFile)
    (ha : assemble (pre ++ stmt :: post) src = .ok o)
    (hn : stmt.nucleus = .directive (.external l)) (hl : stmt.labels = [])
    (hfresh : ∀ p1, pre.foldlM pass1Step (p1Init src) = .ok p1 → lookupKey p1.labels (upperS l.name) = none)
    (s : Sim) (blocks : List (W × List (Option W))) :
    o.externalSymbols ≠ [] ∧ s.loadObj blocks (!o.externalSymbols.isEmpty) = (.error .unresolvedExternal, s) := by
  unfold assemble at ha
  split at ha
  · cases ha
  · rename_i t ht
    -- pass 1: the name is external in the final table
    have hext : ∃ d, lookupKey t.labels (upperS l.name) = some d ∧ d.ext = true := by
      unfold pass1 at ht
      split at ht
      · cases ht
      · rename_i st hfold
        obtain ⟨p1, hpre, hrest⟩ := foldlM_append_ok pass1Step pre (stmt :: post) (p1Init src) st hfold
        rw [List.foldlM_cons] at hrest
        cases hs : pass1Step p1 stmt with
        | error e => rw [hs] at hrest; cases hrest
        | ok p1s =>
          rw [hs] at hrest
          obtain ⟨d, hd, he⟩ := external_declared p1 p1s stmt l hs hn hl (hfresh p1 hpre)
          have hkeep := pass1_fold_keeps post p1s st hrest
          unfold p1Finish at ht
          split at ht
          · cases ht
          · cases ht; exact ⟨d, hkeep _ _ hd, he⟩
    obtain ⟨d, hd, he⟩ := hext
    have hmem := C23mem t.labels _ d hd
    have hany : t.labels.any (fun e => e.2.ext) = true := List.any_eq_true.mpr ⟨_, hmem, he⟩
    have hsym := externals_keep_symbol_table _ t src.isSome o ha hany
    have hne := external_symbols_nonempty o t hsym _ d hmem he
    refine ⟨hne, ?_⟩
    have : (!o.externalSymbols.isEmpty) = true := by
      cases hx : o.externalSymbols with
      | nil => exact absurd hx hne
      | cons a b => rfl
    rw [this]
    exact load_refused s blocks
where
  C23mem (m : List (Key × SymData)) (k : Key) (d : SymData) (h : lookupKey m k = some d) : (k, d) ∈ m := by
    unfold lookupKey at h
    cases hf : List.find? (fun e => e.1 == k) m with
    | none => rw [hf] at h; cases h
    | some x =>
      rw [hf] at h
      have h1 := List.find?_some hf
      have h2 := List.mem_of_find?_eq_some hf
      simp only [Option.map_some, Option.some.injEq] at h
      have : x.1 = k := by simpa using h1
      obtain ⟨xk, xd⟩ := x
      simp only at this h
      subst this; subst h
      exact h2

/-- **after linking in a file that defines the label, the word holds the label's address.**  File A declares `K` external and has
    a relocation entry `(A, K)` (its `.fill K` at address `A`); file B defines `K` at address `V` (first entry for `K` in its
    table, not external).  With the merged relocation table holding one entry per address and the cell `A` lying inside a block
    of the merged image, the symbol-table part of `link` succeeds only with a result whose image holds `V` at `A`. -/
theorem link_fills_external (at_ bt : SymTab) (blocks : Blocks) (r : ObjFile) (K : Key) (ad bd : SymData) (A : W)
    (pre post : List (Key × SymData))
    (hA : (A, K) ∈ bt.rel.foldl (fun m e => relInsert m e.1 e.2) at_.rel)
    (hUA : (bt.rel.foldl (fun m e => relInsert m e.1 e.2) at_.rel).Pairwise (fun x y => x.1 ≠ y.1))
    (hl : lookupKey at_.labels K = some ad) (hext : ad.ext = true)
    (hb : bt.labels = pre ++ (K, bd) :: post) (hpre : ∀ e ∈ pre, (e.1 == K) = false) (hdef : bd.ext = false)
    (hu : blocks.Pairwise (fun x y => x.1 ≠ y.1)) (hcell : (cell blocks A).isSome = true)
    (h : linkSyms at_ bt blocks = .ok r) : cell r.blocks A = some (some bd.addr) := by
  unfold linkSyms at h
  dsimp only at h
  rw [hb] at h
  cases hf : (pre ++ (K, bd) :: post).foldlM (fun st e => linkLabel st (e.1, { e.2 with srcStart := satAdd e.2.srcStart (linkShift at_ bt) }))
      ⟨at_.labels, bt.rel.foldl (fun m e => relInsert m e.1 e.2) at_.rel, []⟩ with
  | error e => rw [hf] at h; cases h
  | ok stf =>
    rw [hf] at h
    cases h
    obtain ⟨h1, h2⟩ := linkFold_resolves (fun e => (e.1, { e.2 with srcStart := satAdd e.2.srcStart (linkShift at_ bt) }))
      (fun _ => rfl) (fun _ => ⟨rfl, rfl⟩) _ stf pre post K ad bd A hpre hl hext hdef hA hUA (fun r hr => by cases hr) hf
    exact patch_fold A bd.addr stf.relocs blocks hu hcell (fun r hr => h2 r hr) (Or.inr h1)

def obligations : List Lean.Name :=
  [``link_fills_external, ``Lc3V.linkFold_resolves, ``Lc3V.patch_fold, ``rel_entries_are_external, ``fill_records_candidate, ``externals_keep_symbol_table, ``external_symbols_nonempty,
   ``load_refused, ``link_resolves, ``patch_sets_word, ``external_declared, ``unresolved_external_refuses_load]

end Lc3V.C21
