/-
  C22 — Linked debug info still points at the right source text.   (proved for the link of two assembled sources)
  Proved: the combined source is `A ++ "\n" ++ B`; its newline table is A's newlines, the separator at `len A`, then B's
  newlines shifted by `len A + 1`, so the combined line count is the sum of both line counts and B's line `l` is the
  combined line `l + lines(A)`; any byte range of B, shifted by `len A + 1`, slices the same text out of the combined
  source, and any byte range of A slices the same text as before; B's label positions are shifted by exactly
  `len A + 1` when both files carry source text (fix F13), A's are unchanged; B's line-map blocks are re-keyed by
  `lines(A)` and A's blocks are kept.
  `read_line_after_link`: in the combined source every line of A reads what it read in A and line `l` of B, now line
  `lines(A) + l`, reads what it read in B (through C25's `line_span_trim`: `read_line` = the trimmed line).
  `link_find` / `linked_line_reads_same_text`: when A's line blocks start below A's line count (what the assembler produces)
  and B's re-keyed lines fit 64 bits, the merged line map is exactly A's blocks followed by B's re-keyed blocks, so
  `rev_lookup_line` of an address recorded in A gives the same line, of an address recorded only in B gives its line plus
  `lines(A)`, and `read_line` of that line reads the same text as in the file the address came from.
  Label spans after linking are subject to findings F21/F23 for labels whose upper-casing changes the byte length; the
  correspondence check compares, for every mapped address and label of every linked file, text before and after linking.
  **Source level** (`assembled_line_map_shape`, `linked_sources_line_text`): the hypotheses of `linked_line_reads_same_text`
  hold for every file assembled from a source text with debug symbols — the line map is sorted, every block starts below
  the line count (a block's first line is the line of a statement), the source info is the one of the text — so for ANY
  two source texts that parse and assemble with debug symbols (line counts within 64 bits), the linked debug symbols report
  for every address of A the same line and text, and for every address only in B its line shifted by lines(A) with the
  same text.
  Session 5 (`nested_link_line_text`, Lemmas/DebugNested): the same statement for the debug symbols of ANY two files produced by
  assembling and linking (`Txt.DOk`: the line map is the condensation of a per-line vector as long as the line count — kept
  by `DebugSymbols::link`, `Txt.DOk.link`, and true of every assembled file, `source_tOk`), so it applies to every link of a
  nested link, not only to freshly assembled operands.
-/
import Lc3V.Lemmas.C22Core
import Lc3V.Props.C24
import Lc3V.Lemmas.DebugNested
set_option linter.unusedSimpArgs false
set_option linter.unusedVariables false
namespace Lc3V.C22
open Lc3V SourceInfo

/-- the debug symbols of a file assembled from a source text: sorted line blocks that start below the line count -/
theorem assembled_line_map_shape (src : List Char) (stmts : List Stmt) (obj : ObjFile)
    (hp : parseAst src = .ok stmts) (h : assemble stmts (some src) = .ok obj) :
    ∃ t m, obj.sym = some t ∧ t.debug = some ⟨m, ofText src⟩ ∧ SortedKeys m ∧ ∀ x ∈ m, x.1 < (ofText src).countLines := by
  have hl := C24.parsed_lines_increasing src stmts hp
  -- pass 1 succeeded; the symbol table is kept because debug symbols were requested
  have hp1 : ∃ t, pass1 stmts (some src) = .ok t ∧ obj.sym = some t := by
    unfold assemble at h
    cases h1 : pass1 stmts (some src) with
    | error e => rw [h1] at h; cases h
    | ok t =>
      rw [h1] at h
      dsimp only at h
      unfold pass2 at h
      cases hf : stmts.foldlM (pass2Step t) ⟨[], none⟩ with
      | error e => rw [hf] at h; cases h
      | ok st => rw [hf] at h; cases h; exact ⟨t, rfl, by simp⟩
  obtain ⟨t, hp1, hsym⟩ := hp1
  obtain ⟨lsf, stf, hf, _, hv, hnone, m, hm, hch, _⟩ := final_vector stmts src t hp1 hl
  refine ⟨t, m, hsym, hm, (chained_sorted m 0 hch).1, fun x hx => ?_⟩
  have hne := C24.nonEmpty_of_chained m 0 hch
  have hno := chained_notOverlapping m 0 hch
  obtain ⟨k, ws⟩ := x
  have hws : ws ≠ [] := hne (k, ws) hx
  have hlen : 0 < ws.length := List.length_pos_iff.mpr hws
  have hg := C24.get_of_mem m hno hne k ws hx 0 hlen
  have hlook : t.lookupLine k = some ws[0] := by simpa [SymTab.lookupLine, hm] using hg
  -- a line that maps to an address is the line of a statement, hence below the line count
  apply Classical.byContradiction
  intro hge
  have : (lsf[k]?).join = none := by
    apply hnone
    intro s hs heq
    have := LinesFrom.lt _ _ stmts 0 hl s hs
    rw [heq] at this
    exact hge this
  rw [hv k, this] at hlook
  cases hlook

/-- **linking two assembled sources**: the line reported for an address, and the text of that line, survive linking -/
theorem linked_sources_line_text (srcA srcB : List Char) (stA stB : List Stmt) (oA oB : ObjFile)
    (hpA : parseAst srcA = .ok stA) (hA : assemble stA (some srcA) = .ok oA)
    (hpB : parseAst srcB = .ok stB) (hB : assemble stB (some srcB) = .ok oB)
    (hfit : (ofText srcA).countLines + (ofText srcB).countLines ≤ 18446744073709551615) :
    ∃ (tA tB : SymTab) (dA dB : DebugSyms), oA.sym = some tA ∧ oB.sym = some tB ∧ tA.debug = some dA ∧ tB.debug = some dB ∧
      ∀ A : W,
        (∀ l, dA.lineMap.find A = some l → l < dA.src.countLines →
          (DebugSyms.link dA dB).lineMap.find A = some l ∧ (DebugSyms.link dA dB).src.readLine l = dA.src.readLine l) ∧
        (∀ l, dA.lineMap.find A = none → dB.lineMap.find A = some l → l < dB.src.countLines →
          (DebugSyms.link dA dB).lineMap.find A = some (l + dA.src.countLines) ∧
          (DebugSyms.link dA dB).src.readLine (l + dA.src.countLines) = dB.src.readLine l) := by
  obtain ⟨tA, mA, hsA, hdA, _, hkA⟩ := assembled_line_map_shape srcA stA oA hpA hA
  obtain ⟨tB, mB, hsB, hdB, hsortB, hkB⟩ := assembled_line_map_shape srcB stB oB hpB hB
  refine ⟨tA, tB, ⟨mA, ofText srcA⟩, ⟨mB, ofText srcB⟩, hsA, hsB, hdA, hdB, fun A => ?_⟩
  exact linked_line_reads_same_text ⟨mA, ofText srcA⟩ ⟨mB, ofText srcB⟩ rfl rfl hsortB hkA
    (fun x hx => by have := hkB x hx; show x.1 + (ofText srcA).countLines ≤ _; omega) A

def obligations : List Lean.Name :=
  [``linked_sources_line_text, ``assembled_line_map_shape, ``linked_line_reads_same_text, ``link_find, ``foldl_insert_above, ``find_map_shift,
   ``nlFrom_append, ``nl_of_link, ``count_lines_link, ``slice_shift, ``slice_prefix, ``label_shift, ``label_shift_none, ``link_source, ``link_keeps_a_blocks, ``read_line_after_link, ``read_line_link,
   ``dOk_shape, ``nested_link_line_text, ``Lc3V.Txt.DOk.link, ``Lc3V.source_tOk]

end Lc3V.C22
