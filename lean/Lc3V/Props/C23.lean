/-
  C23 — Symbol-table label queries agree and ignore case.   (proved; source level for the span text)
  Proved for every table (Lemmas/C23Core.lean): the three label queries go through the upper-cased name, so two spellings
  with the same upper-casing get the same answers (address; source span with the same start, fix F14); the labels recorded
  at an address (the candidates `rev_lookup_label` chooses from) are exactly the keys whose lookup gives that address, when
  keys are unique; names whose upper-casing is not a key give no result; pass 1 keeps keys unique and binds each label to
  the location counter of its statement, an `.external` to 0 (C01.addLabel_spec); the table holds no name the program does
  not define or declare (`listing_is_program_labels`).
  **Source level** (`source_label_source`, Lemmas/FirstDecl.lean + the parser facts): the label table records, for every
  name, the position of its FIRST declaration (in pass-1 order: a statement's labels, then an `.external` operand;
  `table_records_first_declaration`), and that position is where the label token's text stands in the source.  Hence
  for ANY source text that parses and passes pass 1 and any query spelling `q` that is found: `get_label_source q` returns
  the span that starts at the first declaration `l` of that name (no earlier declaration has the same upper-casing), with
  the byte length of `q`; the text there is `l`'s spelling — exactly covered when `q` and `l` have the same byte length
  (always for ASCII names, `C26.ascii_upper_blen`; otherwise see finding F21).
-/
import Lc3V.Lemmas.C23Core
import Lc3V.Lemmas.FirstDecl
import Lc3V.Lemmas.ParserDischarge
set_option linter.unusedSimpArgs false
set_option linter.unusedVariables false
namespace Lc3V.C23
open Lc3V

/-- every declared label of parser output is a label token of the text -/
theorem decl_is_token (src : List Char) (stmts : List Stmt) (hp : parseAst src = .ok stmts) (l : Label) (hl : l ∈ allDecls stmts) :
    ∃ pre post, src = pre ++ l.name ++ post ∧ blen pre = l.start := by
  obtain ⟨toks, hf, _, hs, _⟩ := parseAst_spec src stmts hp
  obtain ⟨s, hsm, hls⟩ := List.mem_flatMap.mp hl
  have hlt : LabTok toks l := by
    unfold declList at hls
    rcases List.mem_append.mp hls with h1 | h1
    · exact (hs s hsm).1 l h1
    · have hk := (hs s hsm).2.1
      cases hn : s.nucleus with
      | instr i => rw [hn] at h1; cases h1
      | directive d =>
        rw [hn] at h1 hk
        cases d with
        | external l0 =>
          simp only [List.mem_singleton] at h1
          subst h1; exact hk
        | orig a => cases h1
        | end_ => cases h1
        | fill v => cases h1
        | blkw n => cases h1
        | stringz x => cases h1
  obtain ⟨t, ht, hk, hst⟩ := hlt
  obtain ⟨_, pre, post, hsrc, hpre, _⟩ := (hf t ht).lab l.name hk
  exact ⟨pre, post, hsrc, by rw [hpre, hst]⟩

/-- **the source span of a label points at its first declaration**, for any source text and any spelling of the query -/
theorem source_label_source (src : List Char) (stmts : List Stmt) (dbg : Option (List Char)) (t : SymTab)
    (hp : parseAst src = .ok stmts) (h : pass1 stmts dbg = .ok t) (q : List Char) (sp : Span)
    (hq : t.getLabelSource q = some sp) :
    ∃ p l r, allDecls stmts = p ++ l :: r ∧ upperS l.name = upperS q ∧ (∀ l' ∈ p, upperS l'.name ≠ upperS q) ∧
      sp = (l.start, l.start + blen q) ∧
      ∃ pre post, src = pre ++ l.name ++ post ∧ blen pre = l.start := by
  unfold SymTab.getLabelSource at hq
  cases hk : lookupKey t.labels (upperS q) with
  | none => rw [hk] at hq; cases hq
  | some d =>
    rw [hk] at hq
    simp only [Option.map_some, Option.some.injEq] at hq
    obtain ⟨p, l, r, hall, hkey, hstart, hfirst⟩ :=
      table_records_first_declaration stmts dbg t h (upperS q) d (mem_of_lookupKey t.labels _ d hk)
    refine ⟨p, l, r, hall, hkey, hfirst, ?_, decl_is_token src stmts hp l (by rw [hall]; simp)⟩
    rw [← hq, hstart]
    rfl

def obligations : List Lean.Name :=
  [``source_label_source, ``decl_is_token, ``Lc3V.table_records_first_declaration, ``Lc3V.pass1_fold_proj, ``Lc3V.stepDecl_fold_first,
   ``lookup_ignores_case, ``source_ignores_case, ``source_span_length, ``lookup_and_source_agree, ``lookupKey_of_mem,
   ``mem_of_lookupKey, ``rev_lookup_candidates, ``absent_name, ``addLabel_unique, ``C01.addLabel_spec,
   ``pass1Step_keys, ``table_only_program_labels, ``listing_is_program_labels]

end Lc3V.C23
