/-
  C23 — Symbol-table label queries agree and ignore case.   (partial)
  Proved for every table: the three label queries go through the upper-cased name, so two spellings with the same
  upper-casing get the same answers (address; source span with the same start, fix F14); the labels recorded at an
  address (the candidates `rev_lookup_label` chooses from) are exactly the keys whose lookup gives that address, when keys
  are unique; names whose upper-casing is not a key give no result; pass 1 keeps keys unique and binds each label to the
  location counter of its statement, an `.external` to 0 (C01.addLabel_spec).
  Not proved: "the span text is the label's first occurrence" (a statement about the source text and the parser's
  label positions) — checked by the oracle on generated programs.
-/
import Lc3V.Lemmas.C01Core
set_option linter.unusedSimpArgs false
namespace Lc3V.C23
open Lc3V

/-- address lookup ignores case -/
theorem lookup_ignores_case (t : SymTab) (a b : List Char) (h : upperS a = upperS b) : t.lookupLabel a = t.lookupLabel b := by
  unfold SymTab.lookupLabel; rw [h]

/-- source lookup ignores case: defined for the same names, with the same start -/
theorem source_ignores_case (t : SymTab) (a b : List Char) (h : upperS a = upperS b) :
    (t.getLabelSource a).map (·.1) = (t.getLabelSource b).map (·.1) := by
  unfold SymTab.getLabelSource; rw [h]
  cases lookupKey t.labels (upperS b) <;> rfl

/-- the span returned for a spelling is as long as that spelling -/
theorem source_span_length (t : SymTab) (a : List Char) (sp : Span) (h : t.getLabelSource a = some sp) : sp.2 = sp.1 + blen a := by
  unfold SymTab.getLabelSource at h
  cases hl : lookupKey t.labels (upperS a) with
  | none => rw [hl] at h; cases h
  | some d => rw [hl] at h; cases h; rfl

/-- both lookups answer for exactly the same names -/
theorem lookup_and_source_agree (t : SymTab) (a : List Char) : (t.lookupLabel a).isSome = (t.getLabelSource a).isSome := by
  unfold SymTab.lookupLabel SymTab.getLabelSource
  cases lookupKey t.labels (upperS a) <;> rfl

def UniqueKeys (m : List (Key × SymData)) : Prop := (m.map (·.1)).Nodup

theorem lookupKey_of_mem (m : List (Key × SymData)) (hu : UniqueKeys m) (k : Key) (d : SymData) (h : (k, d) ∈ m) :
    lookupKey m k = some d := by
  induction m with
  | nil => cases h
  | cons x xs ih =>
    unfold lookupKey
    simp only [UniqueKeys, List.map_cons, List.nodup_cons] at hu
    rcases List.mem_cons.mp h with rfl | hx
    · simp [List.find?]
    · have hne : x.1 ≠ k := by
        intro e; apply hu.1; rw [e]; exact List.mem_map.mpr ⟨(k, d), hx, rfl⟩
      have : (x.1 == k) = false := by simpa using hne
      simp only [List.find?, this]
      exact ih hu.2 hx

theorem mem_of_lookupKey (m : List (Key × SymData)) (k : Key) (d : SymData) (h : lookupKey m k = some d) : (k, d) ∈ m := by
  unfold lookupKey at h
  cases hf : List.find? (fun e => e.1 == k) m with
  | none => rw [hf] at h; cases h
  | some x =>
    rw [hf] at h
    have h1 := List.find?_some hf
    have h2 := List.mem_of_find?_eq_some hf
    simp only [Option.map_some, Option.some.injEq] at h
    have : x.1 = k := by simpa using h1
    obtain ⟨xk, xd⟩ := x
    simp only at this h
    subst this; subst h
    exact h2

/-- reverse lookup candidates = the labels whose address lookup gives that address -/
theorem rev_lookup_candidates (t : SymTab) (hu : UniqueKeys t.labels) (a : W) (k : Key) :
    k ∈ t.revLookupAll a ↔ ∃ d, lookupKey t.labels k = some d ∧ d.addr = a := by
  unfold SymTab.revLookupAll
  constructor
  · intro h
    obtain ⟨e, he, rfl⟩ := List.mem_map.mp h
    have hm := (List.mem_filter.mp he)
    exact ⟨e.2, lookupKey_of_mem _ hu _ _ hm.1, by simpa using hm.2⟩
  · rintro ⟨d, hl, ha⟩
    exact List.mem_map.mpr ⟨(k, d), List.mem_filter.mpr ⟨mem_of_lookupKey _ _ _ hl, by simpa using ha⟩, rfl⟩

/-- names not in the table give no result -/
theorem absent_name (t : SymTab) (a : List Char) (h : lookupKey t.labels (upperS a) = none) :
    t.lookupLabel a = none ∧ t.getLabelSource a = none := by
  unfold SymTab.lookupLabel SymTab.getLabelSource; rw [h]; exact ⟨rfl, rfl⟩

/-- pass 1 never creates a second entry for a key -/
theorem addLabel_unique (labels labels' : List (Key × SymData)) (l : Label) (addr : W) (ext : Bool)
    (hu : UniqueKeys labels) (h : addLabel labels l addr ext = .ok labels') : UniqueKeys labels' := by
  unfold addLabel at h
  dsimp only at h
  cases hl : lookupKey labels (upperS l.name) with
  | some d =>
    rw [hl] at h; dsimp only at h
    split at h
    · cases h
    · cases h; exact hu
  | none =>
    rw [hl] at h; cases h
    unfold UniqueKeys at *
    rw [List.map_append, List.nodup_append]
    refine ⟨hu, by simp, ?_⟩
    intro a ha b hb
    simp only [List.map_cons, List.map_nil, List.mem_singleton] at hb
    subst hb
    intro e; subst e
    obtain ⟨x, hx, hxk⟩ := List.mem_map.mp ha
    have := lookupKey_of_mem labels hu x.1 x.2 hx
    rw [hxk, hl] at this; cases this

def obligations : List Lean.Name :=
  [``lookup_ignores_case, ``source_ignores_case, ``source_span_length, ``lookup_and_source_agree, ``lookupKey_of_mem,
   ``mem_of_lookupKey, ``rev_lookup_candidates, ``absent_name, ``addLabel_unique, ``C01.addLabel_spec]

end Lc3V.C23
