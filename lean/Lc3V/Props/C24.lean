/-
  C24 — Line-to-address debug mapping is one-to-one.   (proved for whole programs: line → address, injectivity, address → line)
  Proved for every line map whose blocks are disjoint and non-empty (what `from_blocks` accepts): the line of the i-th
  entry of a block maps to that entry's address (`get` inverts the enumeration `iter`), lines outside every block map
  to nothing; when all recorded addresses are distinct, the address maps back to the line (`find_of_mem`: `find` inverts `get`).
  In pass 1 a line is recorded only for a statement inside a block that is not `.orig`, `.end` or `.external` (fix F6),
  and it is recorded as the location counter before the statement, i.e. the address of its first word.
  Whole programs (`line_maps_to_statement_address`, Lemmas/LineVec.lean + LineRec.lean): after pass 1 with debug symbols,
  `lookup_line` of the line a statement starts on is the location counter at that statement (the address of its first word)
  when the statement is inside a block and not `.orig`/`.end`/`.external`, and nothing otherwise; lines on which no statement
  starts map to nothing.  This goes through the run-length condensation (`LineSymbolMap::new` answers exactly the per-line
  vector) and an invariant of the vector over the pass-1 fold (runs ascend, nothing recorded beyond the current line).
  `rev_lookup_inverts` (Lemmas/LineInj.lean): for an assembled structured program whose recorded statements are at least one
  word long (parser: `.blkw 0` rejected) and whose blocks do not overlap (pass 2's check, C02.second_pass_iff), the recorded
  addresses are pairwise different — strictly increasing inside a block, in disjoint ranges across blocks — so `lookup_line`
  is injective (no address maps to two lines) and `rev_lookup_line` is its inverse.
  **Source level** (this file; Lemmas/ParserFacts, ParserIdx, ParserOut, ParserDischarge): every hypothesis of those theorems
  is discharged for programs that come out of `parse_ast` — the lexer emits tokens with ordered spans, a newline token ends
  on a '\n' of the text, consecutive statements are separated by a newline token, so statements start on strictly increasing
  lines; `.blkw 0` is rejected and string literals are below 64 K.  Hence for ANY source text that parses and assembles with
  debug symbols: the line of each statement maps to the statement's address, `lookup_line` is injective and
  `rev_lookup_line` is its inverse (`source_line_maps_to_statement_address`, `source_rev_lookup_inverts`).
  The theorems below source level are in Lemmas/C24Core.lean.
-/
import Lc3V.Lemmas.C24Core
import Lc3V.Lemmas.ParserDischarge
import Lc3V.Lemmas.AssembledWFDebug
set_option linter.unusedSimpArgs false
set_option linter.unusedVariables false
namespace Lc3V.C24
open Lc3V

/-- the statements `parse_ast` produces start on strictly increasing lines of the text -/
theorem parsed_lines_increasing (src : List Char) (stmts : List Stmt) (h : parseAst src = .ok stmts) :
    LinesFrom (SourceInfo.ofText src) (SourceInfo.ofText src).countLines 0 stmts :=
  (parsed_program_lines src stmts h).2.2

/-- **line → address for any source text**: parse `src`, run pass 1 with debug symbols; the line on which the statement `s`
    starts maps to the location counter at `s` (the address of its first word) when `s` is inside a block and is not
    `.orig`/`.end`/`.external`, to nothing otherwise; lines on which no statement starts map to nothing -/
theorem source_line_maps_to_statement_address (src : List Char) (pre post : List Stmt) (s : Stmt) (t : SymTab) (st_pre : P1)
    (hp : parseAst src = .ok (pre ++ s :: post))
    (h : pass1 (pre ++ s :: post) (some src) = .ok t)
    (hpre : pre.foldlM pass1Step (p1Init (some src)) = .ok st_pre) :
    t.lookupLine ((SourceInfo.ofText src).getLine s.span.1) =
      (match st_pre.cursor with
       | some cur => if noLine s.nucleus then none else some cur.lc
       | none => none) ∧
    ∀ k, (∀ x ∈ pre ++ s :: post, (SourceInfo.ofText src).getLine x.span.1 ≠ k) → t.lookupLine k = none :=
  line_maps_to_statement_address pre post s src t st_pre h (parsed_lines_increasing src _ hp) hpre

/-- **address → line for any source text**: if `src` parses and assembles with debug symbols, then in the resulting symbol
    table no address maps to two lines and `rev_lookup_line` inverts `lookup_line` -/
theorem source_rev_lookup_inverts (src : List Char) (stmts : List Stmt) (obj : ObjFile)
    (hp : parseAst src = .ok stmts) (h : assemble stmts (some src) = .ok obj) :
    ∃ t, obj.sym = some t ∧
      (∀ l1 l2 a, t.lookupLine l1 = some a → t.lookupLine l2 = some a → l1 = l2) ∧
      (∀ l a, t.lookupLine l = some a → t.revLookupLine a = some l) := by
  obtain ⟨hstr, hsized, hl⟩ := parsed_program_lines src stmts hp
  obtain ⟨blks, tail, t, hprog, hwf, hp1, hexts, hsorted, hall, hmem⟩ := C01.assembled_image_any stmts (some src) obj h
  subst hprog
  have htail : ∀ s ∈ tail, isOrigEnd s.nucleus = false := by
    intro s hs
    have := hexts.2 s hs
    cases hn : s.nucleus with
    | instr i => rfl
    | directive d => rw [hn] at this; cases d <;> first | rfl | cases this
  have hp2 : ∃ st, (blks.flatMap Blk.stmts ++ tail).foldlM (pass2Step t) ⟨[], none⟩ = .ok st ∧ obj.sym = some t := by
    unfold assemble at h
    rw [hp1] at h
    dsimp only at h
    unfold pass2 at h
    cases hf : (blks.flatMap Blk.stmts ++ tail).foldlM (pass2Step t) ⟨[], none⟩ with
    | error e => rw [hf] at h; cases h
    | ok st => rw [hf] at h; cases h; exact ⟨st, rfl, by simp⟩
  obtain ⟨st2, hf2, hsym⟩ := hp2
  have hclear := (pass2_accepted_clear t blks [] tail st2 hwf htail ⟨List.Pairwise.nil, fun x hx => by cases hx⟩ hf2).1
  have hws : ∀ b ∈ blks, ∃ ws, bodyWords t b.a b.body = .ok ws := fun b hb => let ⟨ws, hw, _⟩ := hall b hb; ⟨ws, hw⟩
  have hmemstmt : ∀ b ∈ blks, ∀ s ∈ b.body, s ∈ blks.flatMap Blk.stmts ++ tail := by
    intro b hb s hs
    apply List.mem_append_left
    exact List.mem_flatMap.mpr ⟨b, hb, by unfold Blk.stmts; simp [hs]⟩
  have hsz : ∀ b ∈ blks, Sized b.body := fun b hb s hs hn => hsized s (hmemstmt b hb s hs) hn
  have hss : ∀ b ∈ blks, ShortStrings b.body := fun b hb s hs x hx => hstr s (hmemstmt b hb s hs) x hx
  obtain ⟨r1, r2⟩ := rev_lookup_inverts blks tail src t hwf htail hp1 hl hws hclear hsz hss
  exact ⟨t, hsym, r1, r2⟩

def obligations : List Lean.Name :=
  [``source_rev_lookup_inverts, ``source_line_maps_to_statement_address, ``parsed_lines_increasing, ``Lc3V.parsed_program_lines,
   ``Lc3V.parseAst_spec, ``Lc3V.lex_facts, ``Lc3V.lines_of_starts,
   ``rev_lookup_inverts, ``find_inverts_get, ``Lc3V.lookup_line_injective, ``Lc3V.recsAll_distinct, ``line_maps_to_origin_plus_sizes, ``line_maps_to_statement_address, ``marker_lines_map_to_nothing, ``new_answers_the_vector, ``keys_ge, ``lastLE_of_mem, ``get_of_mem, ``get_of_iter, ``find_of_mem, ``no_line_for_markers, ``line_recorded, ``no_line_outside_block]

end Lc3V.C24
