/-
  C25 — Source position queries are consistent.
  Text = `List Char`, positions = UTF-8 byte offsets.  Proved for every text: the line count is the number of newlines
  plus one; the newline table is strictly increasing and bounded by the text length; for an index within the text the
  position pair (l, c) satisfies lineStart l + c = index with l = number of newlines strictly before the index; for
  an index past the end the position is on the last line with the column measured from that line's start (fix F15);
  line spans exist exactly for lines < count; for each such line `i`, `line_span i` is the byte range of the line (split at
  line feeds) without its leading and trailing white space and `read_line i` is that trimmed text, which neither starts nor
  ends with white space (`line_span_and_text`, `lines_of_text`); beyond the last line both are `None`.
-/
import Lc3V.Model.Source
import Lc3V.Lemmas.SourceLines
namespace Lc3V.C25
open Lc3V SourceInfo

theorem nlFrom_length (off : Nat) (cs : List Char) : (nlFrom off cs).length = cs.count '\n' := by
  induction cs generalizing off with
  | nil => rfl
  | cons c cs ih =>
    simp only [nlFrom, List.count_cons]
    by_cases h : c = '\n'
    · subst h; simp [ih]
    · have : (c == '\n') = false := by simp [h]
      simp [h, ih, this]

/-- the line count is the number of newlines plus one -/
theorem count_lines (cs : List Char) : (ofText cs).countLines = cs.count '\n' + 1 := by
  simp [ofText, countLines, nlFrom_length]

theorem utf8Size_pos (c : Char) : 0 < c.utf8Size := c.utf8Size_pos

theorem takeWhile_all (l : List Nat) (i : Nat) (h : ∀ x ∈ l, x < i) : l.takeWhile (· < i) = l := by
  induction l with
  | nil => rfl
  | cons x xs ih =>
    have hx : x < i := h x (by simp)
    simp only [List.takeWhile_cons, hx, decide_true, if_true]
    rw [ih (fun y hy => h y (by simp [hy]))]

/-- every newline index is ≥ the starting offset and < offset + length; the table is strictly increasing -/
theorem nlFrom_bounds (off : Nat) (cs : List Char) :
    (∀ x ∈ nlFrom off cs, off ≤ x ∧ x < off + blen cs) ∧ (nlFrom off cs).Pairwise (· < ·) := by
  induction cs generalizing off with
  | nil => simp [nlFrom]
  | cons c cs ih =>
    by_cases h : c = '\n'
    · subst h
      obtain ⟨b, p⟩ := ih (off + 1)
      have hs : ('\n' : Char).utf8Size = 1 := by decide
      simp only [nlFrom, if_true, blen, hs]
      constructor
      · intro x hx
        rcases List.mem_cons.mp hx with rfl | hx
        · omega
        · have := b x hx; omega
      · refine List.Pairwise.cons ?_ p
        intro x hx; have := b x hx; omega
    · obtain ⟨b, p⟩ := ih (off + c.utf8Size)
      have := utf8Size_pos c
      simp only [nlFrom, h, if_false, blen]
      constructor
      · intro x hx; have := b x hx; omega
      · exact p

/-- the full table (newlines, then the length) is strictly increasing... except that a final newline at the very end
    makes the last two entries consecutive; all entries are ≤ the length -/
theorem nl_sorted (cs : List Char) : (ofText cs).nl.Pairwise (· < ·) ∧ ∀ x ∈ (ofText cs).nl, x ≤ blen cs := by
  obtain ⟨b, p⟩ := nlFrom_bounds 0 cs
  simp only [ofText]
  constructor
  · rw [List.pairwise_append]
    refine ⟨p, List.pairwise_singleton _ _, ?_⟩
    intro x hx y hy
    simp only [List.mem_singleton] at hy; subst hy
    have := b x hx; omega
  · intro x hx
    rcases List.mem_append.mp hx with h | h
    · have := b x h; omega
    · simp only [List.mem_singleton] at h; omega

/-- `get_line` counts the table entries below the index (binary search on a sorted table) -/
theorem takeWhile_sorted_count (l : List Nat) (h : l.Pairwise (· < ·)) (i : Nat) :
    (l.takeWhile (· < i)).length = l.countP (· < i) := by
  induction l with
  | nil => rfl
  | cons x xs ih =>
    have hx := List.pairwise_cons.mp h
    by_cases hlt : x < i
    · simp [List.takeWhile_cons, hlt, List.countP_cons, ih hx.2]
    · have : xs.countP (· < i) = 0 := by
        rw [List.countP_eq_zero]
        intro y hy; have := hx.1 y hy; simp; omega
      simp [List.takeWhile_cons, hlt, List.countP_cons, this]

/-- line of an index = number of newline characters strictly before it (index within the text) -/
theorem get_line_spec (cs : List Char) (idx : Nat) (h : idx ≤ blen cs) :
    (ofText cs).getLine idx = (nlFrom 0 cs).countP (· < idx) := by
  unfold getLine
  rw [takeWhile_sorted_count _ (nl_sorted cs).1]
  simp only [ofText, List.countP_append, List.countP_cons, List.countP_nil]
  have : ¬ blen cs < idx := by omega
  simp [this]

/-- start of line l: 0, or one past the previous newline -/
def lineStart (s : SourceInfo) (l : Nat) : Nat := if l = 0 then 0 else s.nl.getD (l - 1) 0 + 1

theorem rawLineSpan_start (s : SourceInfo) (l : Nat) (h : l < s.countLines) :
    ∃ e, s.rawLineSpan l = some (lineStart s l, e) := by
  unfold rawLineSpan lineStart
  simp [h]

/-- entries counted by takeWhile are all below the index -/
theorem takeWhile_all_lt (l : List Nat) (i k : Nat) (hk : k < (l.takeWhile (· < i)).length) : l.getD k 0 < i := by
  induction l generalizing k with
  | nil => simp at hk
  | cons x xs ih =>
    by_cases hlt : x < i
    · simp only [List.takeWhile_cons, hlt, decide_true, if_true, List.length_cons] at hk
      cases k with
      | zero => simpa using hlt
      | succ k => simpa using ih k (by omega)
    · simp [List.takeWhile_cons, hlt] at hk

/-- **position pair**, index within the text: the line starts exactly `column` bytes before the index -/
theorem pos_pair (cs : List Char) (idx : Nat) (h : idx ≤ blen cs) :
    let p := (ofText cs).getPosPair idx
    lineStart (ofText cs) p.1 + p.2 = idx ∧ p.1 = (nlFrom 0 cs).countP (· < idx) ∧ p.1 < (ofText cs).countLines := by
  intro p
  have hgl := get_line_spec cs idx h
  have hcnt : (nlFrom 0 cs).countP (· < idx) ≤ (nlFrom 0 cs).length := List.countP_le_length
  have hlines : (ofText cs).countLines = (nlFrom 0 cs).length + 1 := by simp [ofText, countLines]
  have hl : (ofText cs).getLine idx < (ofText cs).countLines := by rw [hgl, hlines]; omega
  have hmin : min ((ofText cs).getLine idx) ((ofText cs).countLines - 1) = (ofText cs).getLine idx := by omega
  have hp1 : p.1 = (ofText cs).getLine idx := by simp only [p, getPosPair, hmin]
  obtain ⟨e, he⟩ := rawLineSpan_start (ofText cs) ((ofText cs).getLine idx) hl
  have hp2 : p.2 = idx - lineStart (ofText cs) ((ofText cs).getLine idx) := by simp only [p, getPosPair, hmin, he]
  refine ⟨?_, by rw [hp1, hgl], by rw [hp1]; exact hl⟩
  rw [hp1, hp2]
  -- the line's start is at or before the index
  have hle : lineStart (ofText cs) ((ofText cs).getLine idx) ≤ idx := by
    unfold lineStart
    split
    · omega
    · rename_i hne
      have := takeWhile_all_lt (ofText cs).nl idx ((ofText cs).getLine idx - 1) (by unfold getLine at hne ⊢; omega)
      omega
  omega

/-- **past the end**: the position is on the last line, the column measured from that line's start -/
theorem pos_past_end (cs : List Char) (idx : Nat) (h : blen cs < idx) :
    let p := (ofText cs).getPosPair idx
    p.1 = (ofText cs).countLines - 1 ∧ p.2 = idx - lineStart (ofText cs) ((ofText cs).countLines - 1) := by
  intro p
  have hall : ((ofText cs).nl.takeWhile (· < idx)) = (ofText cs).nl := by
    apply takeWhile_all
    intro x hx; have := (nl_sorted cs).2 x hx; omega
  have hgl : (ofText cs).getLine idx = (ofText cs).countLines := by unfold getLine countLines; rw [hall]
  have hpos : 0 < (ofText cs).countLines := by simp [ofText, countLines]
  have hmin : min ((ofText cs).getLine idx) ((ofText cs).countLines - 1) = (ofText cs).countLines - 1 := by omega
  obtain ⟨e, he⟩ := rawLineSpan_start (ofText cs) ((ofText cs).countLines - 1) (by omega)
  constructor
  · simp only [p, getPosPair, hmin]
  · simp only [p, getPosPair, hmin, he]

/-- line spans exist exactly for existing lines -/
theorem line_span_some_iff (s : SourceInfo) (i : Nat) : (s.lineSpan i).isSome = true ↔ i < s.countLines := by
  unfold lineSpan rawLineSpan
  by_cases h : i < s.countLines <;> simp [h]

/-- a line span lies inside the raw line: trimming only moves the start right and the end left -/
theorem line_span_within (s : SourceInfo) (i a b ra rb : Nat) (hr : s.rawLineSpan i = some (ra, rb))
    (h : s.lineSpan i = some (a, b)) : ra ≤ a ∧ b ≤ rb := by
  unfold lineSpan at h
  rw [hr] at h
  simp only [Option.some.injEq, Prod.mk.injEq] at h
  omega

/-- the lines of a text: splitting at '\n' gives count('\n') + 1 pieces without '\n' that, joined by '\n', are the text -/
theorem lines_of_text (cs : List Char) :
    (splitNl cs).length = (ofText cs).countLines ∧ joinNl (splitNl cs) = cs ∧ ∀ l ∈ splitNl cs, '\n' ∉ l := by
  refine ⟨?_, joinNl_splitNl cs, splitNl_no_nl cs⟩
  rw [splitNl_length, count_lines]

/-- **line span and line text**: for every line `i` (0-based) the line is `lead ++ trim line ++ trail` with `lead`, `trail`
    white space; `line_span i` is the byte range that starts after the earlier lines (each with its line feed) and `lead`
    and is as long as the trimmed line; `read_line i` is the trimmed line; and the trimmed line neither starts nor ends
    with white space (`char::is_whitespace`, so a `\r` before the line feed is trimmed as well) -/
theorem line_span_and_text (cs : List Char) (i : Nat) (hi : i < (ofText cs).countLines) :
    ∃ lead trail, (∀ c ∈ lead, rustWs c = true) ∧ (∀ c ∈ trail, rustWs c = true) ∧
      (splitNl cs).getD i [] = lead ++ trim ((splitNl cs).getD i []) ++ trail ∧
      (ofText cs).lineSpan i = some (blen (preOf (splitNl cs) i) + blen lead,
                                     blen (preOf (splitNl cs) i) + blen lead + blen (trim ((splitNl cs).getD i []))) ∧
      (ofText cs).readLine i = some (trim ((splitNl cs).getD i [])) ∧
      (∀ c r, trim ((splitNl cs).getD i []) = c :: r → rustWs c = false) ∧
      (∀ c r, trim ((splitNl cs).getD i []) = r ++ [c] → rustWs c = false) := by
  obtain ⟨lead, h1, ⟨trail, h2, h3⟩, h4, h5⟩ := line_span_trim cs i (by rw [(lines_of_text cs).1]; exact hi)
  exact ⟨lead, trail, h1, h3, h2, h4, h5, (trim_tight _).1, (trim_tight _).2⟩

/-- beyond the last line there is no span and no text -/
theorem no_line_beyond (cs : List Char) (i : Nat) (hi : (ofText cs).countLines ≤ i) :
    (ofText cs).lineSpan i = none ∧ (ofText cs).readLine i = none := by
  have : (ofText cs).lineSpan i = none := by
    have h := line_span_some_iff (ofText cs) i
    cases hl : (ofText cs).lineSpan i with
    | none => rfl
    | some x => rw [hl] at h; exact absurd (h.mp rfl) (by omega)
  exact ⟨this, by unfold readLine; rw [this]; rfl⟩

-- non-vacuity: line 1 of "ab\n  cd \r\nx" is "cd", at bytes 5..7
example : (ofText "ab\n  cd \r\nx".toList).readLine 1 = some "cd".toList ∧
    (ofText "ab\n  cd \r\nx".toList).lineSpan 1 = some (5, 7) := by decide

-- non-vacuity: "ab\ncd" has two lines; index 7 (past the end, length 5) is on line 1, column 7 - 3 = 4
example : (ofText "ab\ncd".toList).countLines = 2 ∧ (ofText "ab\ncd".toList).getPosPair 7 = (1, 4) ∧
    (ofText "ab\ncd".toList).getPosPair 3 = (1, 0) := by decide

def obligations : List Lean.Name :=
  [``count_lines, ``nlFrom_bounds, ``nl_sorted, ``get_line_spec, ``pos_pair, ``pos_past_end, ``line_span_some_iff,
   ``line_span_within, ``lines_of_text, ``line_span_and_text, ``no_line_beyond]

end Lc3V.C25
