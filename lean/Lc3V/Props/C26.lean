/-
  C26 — Assembler and linker error spans are well-formed.   (assembler side proved at source level; modulo finding F21)
  Proved for every input: every error `assemble` / `assemble_debug` / `link` can return carries at least one span, so
  `ErrSpan::first` and `iter` have something to return (fix F16 made this true for `link`); label errors carry the span
  of the label token they complain about (`Label::span`), duplicate-label errors additionally the recorded position of
  the first definition.
  **Source level** (`source_error_spans`, Lemmas/ErrSpans.lean + the parser-output facts of Lemmas/ParserOut.lean): for ANY
  source text that parses, if assembling (with or without debug symbols) fails, then
    * for a label error (undetermined label address, duplicate label, offset does not fit / is external, label not found)
      every span starts at an occurrence of a label's spelling in the text and has the byte length of that spelling — or,
      possible only for the recorded first definition of a duplicate-label error, the byte length of the upper-cased spelling;
    * for every other error every span runs from the start of a token to the end of the same or a later token, hence lies
      inside the text.
  `source_error_spans_inside`: when upper-casing preserves the byte length of every label the program declares (true for
  every ASCII label), every span of every error lies inside the text.  The remaining case IS finding F21 (e.g. a label
  containing `ŉ`, whose upper-casing is one byte longer): the recorded first-definition span can extend past the label
  and past the end of the text.  Linker errors carry the placeholder span 0..0 for block overlaps (no source position is
  known) and recorded label positions otherwise; the correspondence check's oracle covers them.
-/
import Lc3V.Model.Asm
import Lc3V.Lemmas.ErrSpans
import Lc3V.Lemmas.ParserDischarge
set_option linter.unusedSimpArgs false
namespace Lc3V.C26
open Lc3V

def ErrOk {α : Type} (r : ARes α) : Prop := match r with | .error e => e.spans ≠ [] | .ok _ => True

theorem addLabel_errOk (labels : List (Key × SymData)) (l : Label) (addr : W) (ext : Bool) : ErrOk (addLabel labels l addr ext) := by
  unfold addLabel
  dsimp only
  split
  · split
    · simp [ErrOk]
    · trivial
  · trivial

theorem addLabels_errOk (ls : List Label) (addr : W) : ∀ labels, ErrOk (addLabels labels ls addr) := by
  unfold addLabels
  induction ls with
  | nil => intro labels; trivial
  | cons l rest ih =>
    intro labels
    rw [List.foldlM_cons]
    have h := addLabel_errOk labels l addr false
    cases hx : addLabel labels l addr false with
    | error e => rw [hx] at h; exact h
    | ok m => exact ih m

theorem p1Labels_errOk (st : P1) (stmt : Stmt) : ErrOk (p1Labels st stmt) := by
  unfold p1Labels
  split
  · trivial
  · rename_i hne
    split
    · show stmt.labels.map Label.span ≠ []
      intro h
      have : stmt.labels = [] := List.map_eq_nil_iff.mp h
      rw [this] at hne; simp at hne
    · exact addLabels_errOk _ _ _

theorem p1Special_errOk (st : P1) (stmt : Stmt) (labels : List (Key × SymData)) : ErrOk (p1Special st stmt labels) := by
  unfold p1Special
  cases stmt.nucleus with
  | instr i => trivial
  | directive d =>
    cases d with
    | orig a => dsimp only; split <;> simp [ErrOk]
    | end_ => dsimp only; split <;> simp [ErrOk]
    | external l =>
      dsimp only
      have h := addLabel_errOk labels l 0 true
      split
      · rename_i e he; rw [he] at h; exact h
      · trivial
    | fill v =>
      cases v with
      | off v => trivial
      | label l =>
        dsimp only
        split
        · trivial
        · split <;> simp [ErrOk]
    | blkw n => trivial
    | stringz s => trivial

theorem p1Advance_errOk (st : P1) (stmt : Stmt) (c : Option Cursor) (labels : List (Key × SymData)) (rel : List (W × Key)) :
    ErrOk (p1Advance st stmt c labels rel) := by
  unfold p1Advance
  split
  · trivial
  · dsimp only; split <;> simp [ErrOk]

theorem pass1Step_errOk (st : P1) (stmt : Stmt) : ErrOk (pass1Step st stmt) := by
  unfold pass1Step
  have h1 := p1Labels_errOk st stmt
  split
  · rename_i e he; rw [he] at h1; exact h1
  · rename_i labels _
    have h2 := p1Special_errOk st stmt labels
    split
    · rename_i e he; rw [he] at h2; exact h2
    · exact p1Advance_errOk _ _ _ _ _

theorem foldlM_errOk {σ : Type} (f : σ → Stmt → ARes σ) (hf : ∀ s x, ErrOk (f s x)) : ∀ (l : List Stmt) (s : σ), ErrOk (l.foldlM f s) := by
  intro l
  induction l with
  | nil => intro s; trivial
  | cons x xs ih =>
    intro s
    rw [List.foldlM_cons]
    have h := hf s x
    cases hx : f s x with
    | error e => rw [hx] at h; exact h
    | ok s' => exact ih s'

theorem pass1_errOk (stmts : List Stmt) (src : Option (List Char)) : ErrOk (pass1 stmts src) := by
  unfold pass1
  have h := foldlM_errOk pass1Step pass1Step_errOk stmts (p1Init src)
  split
  · rename_i e he; rw [he] at h; exact h
  · unfold p1Finish
    split
    · simp [ErrOk]
    · trivial

theorem replacePcOffset_errOk (n : Nat) (o : PCOff n) (pc : W) (t : SymTab) : ErrOk (replacePcOffset n o pc t) := by
  unfold replacePcOffset
  split
  · trivial
  · split
    · simp [ErrOk]
    · split
      · simp [ErrOk]
      · split <;> simp [ErrOk]

theorem map_errOk {α β : Type} (f : α → β) (r : ARes α) (h : ErrOk r) : ErrOk (r >>= fun a => pure (f a)) := by
  cases r with
  | error e => exact h
  | ok a => trivial

theorem intoSimInstr_errOk (i : AsmInstr) (pc : W) (t : SymTab) : ErrOk (intoSimInstr i pc t) := by
  cases i <;> first | trivial | exact map_errOk _ _ (replacePcOffset_errOk _ _ _ _)

theorem directiveWords_errOk (d : Directive) (t : SymTab) : ErrOk (directiveWords d t) := by
  unfold directiveWords
  split <;> try trivial
  split <;> simp [ErrOk]

theorem pass2Step_errOk (t : SymTab) (st : P2) (stmt : Stmt) : ErrOk (pass2Step t st stmt) := by
  have generic : ∀ d : Directive, ErrOk (match st.current with
      | none => (.error ⟨.undetAddrStmt, [stmt.span]⟩ : ARes P2)
      | some (lc, block) =>
        match directiveWords d t with
        | .error e => .error e
        | .ok ws => .ok { st with current := some (lc + d.wordLen, { block with words := block.words ++ ws }) }) := by
    intro d
    split
    · simp [ErrOk]
    · have h := directiveWords_errOk d t
      split
      · rename_i e he; rw [he] at h; exact h
      · trivial
  unfold pass2Step
  cases stmt.nucleus with
  | instr i =>
    dsimp only
    split
    · simp [ErrOk]
    · rename_i lc block _
      have h := intoSimInstr_errOk i (lc + 1) t
      split
      · rename_i e he; rw [he] at h; exact h
      · trivial
  | directive d =>
    cases d with
    | orig a => trivial
    | end_ =>
      dsimp only
      split
      · simp [ErrOk]
      · split
        · trivial
        · split
          · simp only [ErrOk]; split <;> simp
          · trivial
    | external l => trivial
    | fill v => exact generic (.fill v)
    | blkw n => exact generic (.blkw n)
    | stringz s => exact generic (.stringz s)

/-- every error of assembling carries at least one span -/
theorem assemble_error_has_span (stmts : List Stmt) (src : Option (List Char)) (e : AsmErr) (h : assemble stmts src = .error e) :
    e.spans ≠ [] := by
  unfold assemble at h
  have h1 := pass1_errOk stmts src
  split at h
  · rename_i e1 he; cases h; rw [he] at h1; exact h1
  · rename_i t _
    unfold pass2 at h
    have h2 := foldlM_errOk (pass2Step t) (pass2Step_errOk t) stmts ⟨[], none⟩
    split at h
    · rename_i e2 he; cases h; rw [he] at h2; exact h2
    · cases h

theorem linkLabel_errOk (st : LinkSt) (e : Key × SymData) : ErrOk (linkLabel st e) := by
  unfold linkLabel
  dsimp only
  split
  · trivial
  · split
    · trivial
    · split
      · trivial
      · split <;> simp [ErrOk]

theorem linkFold_errOk (f : Key × SymData → Key × SymData) : ∀ (l : List (Key × SymData)) (s : LinkSt),
    ErrOk (l.foldlM (fun st e => linkLabel st (f e)) s) := by
  intro l
  induction l with
  | nil => intro s; trivial
  | cons x xs ih =>
    intro s
    rw [List.foldlM_cons]
    have h0 := linkLabel_errOk s (f x)
    cases hx : linkLabel s (f x) with
    | error e0 => rw [hx] at h0; exact h0
    | ok s' => exact ih s'

/-- every error of linking carries a span (the empty span 0..0 when no source position exists) -/
theorem link_error_has_span (a b : ObjFile) (e : AsmErr) (h : ObjFile.link a b = .error e) : e.spans ≠ [] := by
  unfold ObjFile.link at h
  split at h
  · rename_i e1 he
    cases h
    unfold linkBlocks at he
    dsimp only at he
    split at he
    · cases he; simp
    · split at he
      · cases he; simp
      · cases he
  · split at h
    · rename_i at_ bt _ _
      unfold linkSyms at h
      dsimp only at h
      have := linkFold_errOk (fun e => (e.1, { e.2 with srcStart := satAdd e.2.srcStart (linkShift at_ bt) })) bt.labels
        ⟨at_.labels, bt.rel.foldl (fun m e => relInsert m e.1 e.2) at_.rel, []⟩
      split at h
      · rename_i e1 he; cases h; rw [he] at this; exact this
      · cases h
    · cases h
    · cases h

/-- label errors point at the label token the statement wrote -/
theorem operand_error_span (n : Nat) (l : Label) (pc : W) (t : SymTab) (e : AsmErr) (h : replacePcOffset n (.label l) pc t = .error e) :
    e.spans = [l.span] := by
  unfold replacePcOffset at h
  dsimp only at h
  split at h
  · cases h; rfl
  · split at h
    · cases h; rfl
    · split at h <;> cases h <;> rfl

/-! ### source level -/

/-- the span lies inside the text -/
def Inside (src : List Char) (sp : Span) : Prop := sp.1 ≤ sp.2 ∧ sp.2 ≤ blen src

/-- the span starts at an occurrence of `name` in the text and has `len` bytes -/
def StartsAt (src : List Char) (name : List Char) (len : Nat) (sp : Span) : Prop :=
  ∃ pre post, src = pre ++ name ++ post ∧ sp = (blen pre, blen pre + len)

/-- a label span: covers a spelling of a label exactly, or (recorded first definitions only) starts at the spelling of a label
    the program declares and has the length of its upper-casing -/
def LabelSpan (src : List Char) (stmts : List Stmt) (sp : Span) : Prop :=
  (∃ name : List Char, StartsAt src name (blen name) sp) ∨
  (∃ s ∈ stmts, ∃ l, DeclLabel s l ∧ StartsAt src l.name (blen (upperS l.name)) sp)

theorem toks_ordered (toks : Array SpTok) (hpw : toks.toList.Pairwise (fun a b => a.stop ≤ b.start))
    (i j : Nat) (ti tj : SpTok) (hij : i < j) (hi : toks[i]? = some ti) (hj : toks[j]? = some tj) : ti.stop ≤ tj.start := by
  obtain ⟨hi1, hi2⟩ := Array.getElem?_eq_some_iff.mp hi
  obtain ⟨hj1, hj2⟩ := Array.getElem?_eq_some_iff.mp hj
  have := List.pairwise_iff_getElem.mp hpw i j (by simpa using hi1) (by simpa using hj1) hij
  simp only [Array.getElem_toList] at this
  rw [hi2, hj2] at this; exact this

theorem labTok_spans (src : List Char) (toks : Array SpTok) (hf : ∀ t ∈ toks.toList, TokFact src t) (l : Label) (h : LabTok toks l) :
    StartsAt src l.name (blen l.name) l.span ∧
    StartsAt src l.name (blen (upperS l.name)) (l.start, l.start + blen (upperS l.name)) := by
  obtain ⟨t, ht, hk, hs⟩ := h
  obtain ⟨_, pre, post, hsrc, hpre, hstop⟩ := (hf t ht).lab l.name hk
  have hst : blen pre = l.start := by rw [hpre, hs]
  exact ⟨⟨pre, post, hsrc, by unfold Label.span; rw [hst]⟩, ⟨pre, post, hsrc, by rw [hst]⟩⟩

/-- parser output satisfies the per-statement assumptions of `assemble_spans` -/
theorem parsed_spanStmtOk (src : List Char) (stmts : List Stmt) (h : parseAst src = .ok stmts) :
    ∀ s ∈ stmts, SpanStmtOk (Inside src) (LabelSpan src stmts) s := by
  obtain ⟨toks, hf, hpw, hs, _⟩ := parseAst_spec src stmts h
  intro s hsm
  obtain ⟨hlab, hkind, i, j, t, te, hij, hti, hte, hsp⟩ := hs s hsm
  have hmem : ∀ i t, toks[i]? = some t → t ∈ toks.toList := fun i t h => Array.mem_toList_iff.mpr (Array.mem_of_getElem? h)
  refine ⟨?_, ?_, ?_, ?_⟩
  · rw [hsp]
    have f1 := hf t (hmem i t hti)
    have f2 := hf te (hmem j te hte)
    refine ⟨?_, f2.hi⟩
    show t.start ≤ te.stop
    rcases Nat.lt_or_ge i j with hlt | hge
    · have := toks_ordered toks hpw i j t te hlt hti hte
      have := f1.lo; have := f2.lo; omega
    · have : i = j := by omega
      subst this
      rw [hti] at hte; cases hte; exact f1.lo
  · intro l hl
    exact Or.inl ⟨l.name, (labTok_spans src toks hf l (hlab l hl)).1⟩
  · intro l hl
    have hlt : LabTok toks l := by
      cases hn : s.nucleus with
      | instr ins => rw [hn] at hl hkind; exact hkind l hl
      | directive d =>
        rw [hn] at hl hkind
        cases d with
        | fill v =>
          cases v with
          | off w => simp [StmtKind.labelOps] at hl
          | label l0 =>
            have : l = l0 := by simpa [StmtKind.labelOps] using hl
            subst this; exact hkind
        | external l0 =>
          have : l = l0 := by simpa [StmtKind.labelOps] using hl
          subst this; exact hkind
        | orig a => simp [StmtKind.labelOps] at hl
        | end_ => simp [StmtKind.labelOps] at hl
        | blkw n => simp [StmtKind.labelOps] at hl
        | stringz x => simp [StmtKind.labelOps] at hl
    exact Or.inl ⟨l.name, (labTok_spans src toks hf l hlt).1⟩
  · intro l hd
    have hlt : LabTok toks l := by
      rcases hd with hd' | hd'
      · exact hlab l hd'
      · rw [hd'] at hkind; exact hkind
    exact Or.inr ⟨s, hsm, l, hd, (labTok_spans src toks hf l hlt).2⟩

/-- **error spans of assembling any source text**: label errors point at label spellings in the text (the recorded first
    definition possibly with the length of the upper-cased name), all other errors at token-to-token ranges inside the text -/
theorem source_error_spans (src : List Char) (stmts : List Stmt) (dbg : Bool) (e : AsmErr) (hp : parseAst src = .ok stmts)
    (h : assemble stmts (if dbg then some src else none) = .error e) :
    e.spans ≠ [] ∧
    (isLabelErr e.kind = true → ∀ sp ∈ e.spans, LabelSpan src stmts sp) ∧
    (isLabelErr e.kind = false → ∀ sp ∈ e.spans, Inside src sp) := by
  have hspec := assemble_spans (Inside src) (LabelSpan src stmts) stmts _ (parsed_spanStmtOk src stmts hp) e h
  refine ⟨assemble_error_has_span stmts _ e h, fun hk => ?_, fun hk => ?_⟩
  · unfold ErrSpec at hspec; rw [hk] at hspec; exact hspec
  · unfold ErrSpec at hspec; rw [hk] at hspec; exact hspec

/-- a label span of the exact form lies inside the text -/
theorem startsAt_inside (src name : List Char) (sp : Span) (h : StartsAt src name (blen name) sp) : Inside src sp := by
  obtain ⟨pre, post, hsrc, rfl⟩ := h
  refine ⟨by simp, ?_⟩
  rw [hsrc, blen_append, blen_append]
  show blen pre + blen name ≤ _
  omega

/-- **all spans inside the text** when upper-casing keeps the byte length of the names of the labels the program declares
    (true of every ASCII label; the other case is finding F21) -/
theorem source_error_spans_inside (src : List Char) (stmts : List Stmt) (dbg : Bool) (e : AsmErr) (hp : parseAst src = .ok stmts)
    (h : assemble stmts (if dbg then some src else none) = .error e)
    (hup : ∀ s ∈ stmts, ∀ l, DeclLabel s l → blen (upperS l.name) = blen l.name) :
    ∀ sp ∈ e.spans, Inside src sp := by
  obtain ⟨_, h1, h2⟩ := source_error_spans src stmts dbg e hp h
  intro sp hsp
  cases hk : isLabelErr e.kind with
  | false => exact h2 hk sp hsp
  | true =>
    rcases h1 hk sp hsp with ⟨name, hn⟩ | ⟨s, hs, l, hd, hn⟩
    · exact startsAt_inside src name sp hn
    · rw [hup s hs l hd] at hn
      exact startsAt_inside src l.name sp hn

theorem ascii_upperC_table : ∀ n : Fin 128, blen (upperC (Char.ofNat n.val)) = (Char.ofNat n.val).utf8Size := by decide +kernel

/-- ASCII names keep their byte length under upper-casing -/
theorem ascii_upper_blen : ∀ name : List Char, (∀ c ∈ name, c.toNat < 128) → blen (upperS name) = blen name
  | [], _ => rfl
  | c :: cs, h => by
    have ih := ascii_upper_blen cs (fun x hx => h x (by simp [hx]))
    have hc := h c (by simp)
    have h1 : blen (upperC c) = c.utf8Size := by
      have := ascii_upperC_table ⟨c.toNat, hc⟩
      simpa [Char.ofNat_toNat] using this
    unfold upperS at ih ⊢
    simp only [List.flatMap_cons, blen_append, blen, ih, h1]

/-- finding F21's mechanism: a name whose upper-casing is longer in bytes -/
example : blen (upperS [Char.ofNat 0x149]) = 3 ∧ blen [Char.ofNat 0x149] = 2 := by decide +kernel

def obligations : List Lean.Name :=
  [``source_error_spans, ``source_error_spans_inside, ``ascii_upper_blen, ``parsed_spanStmtOk, ``Lc3V.assemble_spans, ``Lc3V.parseAst_spec,
   ``pass1_errOk, ``pass2Step_errOk, ``assemble_error_has_span, ``link_error_has_span, ``operand_error_span]

end Lc3V.C26
