/-
  C26 — Assembler and linker error spans are well-formed.   (partial)
  Proved for every input: every error `assemble` / `assemble_debug` / `link` can return carries at least one span, so
  `ErrSpan::first` and `iter` have something to return (fix F16 made this true for `link`); label errors carry the span
  of the label token they complain about (`Label::span`), duplicate-label errors additionally the recorded position of
  the first definition.
  Not proved: "every span lies within the source" needs the parser's span theorem (C04) composed with the statement
  spans and, for the recorded position of a first definition, that upper-casing preserves the byte length of a label —
  false for some non-ASCII labels (known finding F21); the correspondence check's oracle checks spans on generated
  programs with ASCII labels and reports F21 on the non-ASCII stream.
-/
import Lc3V.Model.Asm
set_option linter.unusedSimpArgs false
namespace Lc3V.C26
open Lc3V

def ErrOk {α : Type} (r : ARes α) : Prop := match r with | .error e => e.spans ≠ [] | .ok _ => True

theorem addLabel_errOk (labels : List (Key × SymData)) (l : Label) (addr : W) (ext : Bool) : ErrOk (addLabel labels l addr ext) := by
  unfold addLabel
  dsimp only
  split
  · split
    · simp [ErrOk]
    · trivial
  · trivial

theorem addLabels_errOk (ls : List Label) (addr : W) : ∀ labels, ErrOk (addLabels labels ls addr) := by
  unfold addLabels
  induction ls with
  | nil => intro labels; trivial
  | cons l rest ih =>
    intro labels
    rw [List.foldlM_cons]
    have h := addLabel_errOk labels l addr false
    cases hx : addLabel labels l addr false with
    | error e => rw [hx] at h; exact h
    | ok m => exact ih m

theorem p1Labels_errOk (st : P1) (stmt : Stmt) : ErrOk (p1Labels st stmt) := by
  unfold p1Labels
  split
  · trivial
  · rename_i hne
    split
    · show stmt.labels.map Label.span ≠ []
      intro h
      have : stmt.labels = [] := List.map_eq_nil_iff.mp h
      rw [this] at hne; simp at hne
    · exact addLabels_errOk _ _ _

theorem p1Special_errOk (st : P1) (stmt : Stmt) (labels : List (Key × SymData)) : ErrOk (p1Special st stmt labels) := by
  unfold p1Special
  cases stmt.nucleus with
  | instr i => trivial
  | directive d =>
    cases d with
    | orig a => dsimp only; split <;> simp [ErrOk]
    | end_ => dsimp only; split <;> simp [ErrOk]
    | external l =>
      dsimp only
      have h := addLabel_errOk labels l 0 true
      split
      · rename_i e he; rw [he] at h; exact h
      · trivial
    | fill v =>
      cases v with
      | off v => trivial
      | label l =>
        dsimp only
        split
        · trivial
        · split <;> simp [ErrOk]
    | blkw n => trivial
    | stringz s => trivial

theorem p1Advance_errOk (st : P1) (stmt : Stmt) (c : Option Cursor) (labels : List (Key × SymData)) (rel : List (W × Key)) :
    ErrOk (p1Advance st stmt c labels rel) := by
  unfold p1Advance
  split
  · trivial
  · dsimp only; split <;> simp [ErrOk]

theorem pass1Step_errOk (st : P1) (stmt : Stmt) : ErrOk (pass1Step st stmt) := by
  unfold pass1Step
  have h1 := p1Labels_errOk st stmt
  split
  · rename_i e he; rw [he] at h1; exact h1
  · rename_i labels _
    have h2 := p1Special_errOk st stmt labels
    split
    · rename_i e he; rw [he] at h2; exact h2
    · exact p1Advance_errOk _ _ _ _ _

theorem foldlM_errOk {σ : Type} (f : σ → Stmt → ARes σ) (hf : ∀ s x, ErrOk (f s x)) : ∀ (l : List Stmt) (s : σ), ErrOk (l.foldlM f s) := by
  intro l
  induction l with
  | nil => intro s; trivial
  | cons x xs ih =>
    intro s
    rw [List.foldlM_cons]
    have h := hf s x
    cases hx : f s x with
    | error e => rw [hx] at h; exact h
    | ok s' => exact ih s'

theorem pass1_errOk (stmts : List Stmt) (src : Option (List Char)) : ErrOk (pass1 stmts src) := by
  unfold pass1
  have h := foldlM_errOk pass1Step pass1Step_errOk stmts (p1Init src)
  split
  · rename_i e he; rw [he] at h; exact h
  · unfold p1Finish
    split
    · simp [ErrOk]
    · trivial

theorem replacePcOffset_errOk (n : Nat) (o : PCOff n) (pc : W) (t : SymTab) : ErrOk (replacePcOffset n o pc t) := by
  unfold replacePcOffset
  split
  · trivial
  · split
    · simp [ErrOk]
    · split
      · simp [ErrOk]
      · split <;> simp [ErrOk]

theorem map_errOk {α β : Type} (f : α → β) (r : ARes α) (h : ErrOk r) : ErrOk (r >>= fun a => pure (f a)) := by
  cases r with
  | error e => exact h
  | ok a => trivial

theorem intoSimInstr_errOk (i : AsmInstr) (pc : W) (t : SymTab) : ErrOk (intoSimInstr i pc t) := by
  cases i <;> first | trivial | exact map_errOk _ _ (replacePcOffset_errOk _ _ _ _)

theorem directiveWords_errOk (d : Directive) (t : SymTab) : ErrOk (directiveWords d t) := by
  unfold directiveWords
  split <;> try trivial
  split <;> simp [ErrOk]

theorem pass2Step_errOk (t : SymTab) (st : P2) (stmt : Stmt) : ErrOk (pass2Step t st stmt) := by
  have generic : ∀ d : Directive, ErrOk (match st.current with
      | none => (.error ⟨.undetAddrStmt, [stmt.span]⟩ : ARes P2)
      | some (lc, block) =>
        match directiveWords d t with
        | .error e => .error e
        | .ok ws => .ok { st with current := some (lc + d.wordLen, { block with words := block.words ++ ws }) }) := by
    intro d
    split
    · simp [ErrOk]
    · have h := directiveWords_errOk d t
      split
      · rename_i e he; rw [he] at h; exact h
      · trivial
  unfold pass2Step
  cases stmt.nucleus with
  | instr i =>
    dsimp only
    split
    · simp [ErrOk]
    · rename_i lc block _
      have h := intoSimInstr_errOk i (lc + 1) t
      split
      · rename_i e he; rw [he] at h; exact h
      · trivial
  | directive d =>
    cases d with
    | orig a => trivial
    | end_ =>
      dsimp only
      split
      · simp [ErrOk]
      · split
        · trivial
        · split
          · simp only [ErrOk]; split <;> simp
          · trivial
    | external l => trivial
    | fill v => exact generic (.fill v)
    | blkw n => exact generic (.blkw n)
    | stringz s => exact generic (.stringz s)

/-- every error of assembling carries at least one span -/
theorem assemble_error_has_span (stmts : List Stmt) (src : Option (List Char)) (e : AsmErr) (h : assemble stmts src = .error e) :
    e.spans ≠ [] := by
  unfold assemble at h
  have h1 := pass1_errOk stmts src
  split at h
  · rename_i e1 he; cases h; rw [he] at h1; exact h1
  · rename_i t _
    unfold pass2 at h
    have h2 := foldlM_errOk (pass2Step t) (pass2Step_errOk t) stmts ⟨[], none⟩
    split at h
    · rename_i e2 he; cases h; rw [he] at h2; exact h2
    · cases h

theorem linkLabel_errOk (st : LinkSt) (e : Key × SymData) : ErrOk (linkLabel st e) := by
  unfold linkLabel
  dsimp only
  split
  · trivial
  · split
    · trivial
    · split
      · trivial
      · split <;> simp [ErrOk]

theorem linkFold_errOk (f : Key × SymData → Key × SymData) : ∀ (l : List (Key × SymData)) (s : LinkSt),
    ErrOk (l.foldlM (fun st e => linkLabel st (f e)) s) := by
  intro l
  induction l with
  | nil => intro s; trivial
  | cons x xs ih =>
    intro s
    rw [List.foldlM_cons]
    have h0 := linkLabel_errOk s (f x)
    cases hx : linkLabel s (f x) with
    | error e0 => rw [hx] at h0; exact h0
    | ok s' => exact ih s'

/-- every error of linking carries a span (the empty span 0..0 when no source position exists) -/
theorem link_error_has_span (a b : ObjFile) (e : AsmErr) (h : ObjFile.link a b = .error e) : e.spans ≠ [] := by
  unfold ObjFile.link at h
  split at h
  · rename_i e1 he
    cases h
    unfold linkBlocks at he
    dsimp only at he
    split at he
    · cases he; simp
    · split at he
      · cases he; simp
      · cases he
  · split at h
    · rename_i at_ bt _ _
      unfold linkSyms at h
      dsimp only at h
      have := linkFold_errOk (fun e => (e.1, { e.2 with srcStart := satAdd e.2.srcStart (linkShift at_ bt) })) bt.labels
        ⟨at_.labels, bt.rel.foldl (fun m e => relInsert m e.1 e.2) at_.rel, []⟩
      split at h
      · rename_i e1 he; cases h; rw [he] at this; exact this
      · cases h
    · cases h
    · cases h

/-- label errors point at the label token the statement wrote -/
theorem operand_error_span (n : Nat) (l : Label) (pc : W) (t : SymTab) (e : AsmErr) (h : replacePcOffset n (.label l) pc t = .error e) :
    e.spans = [l.span] := by
  unfold replacePcOffset at h
  dsimp only at h
  split at h
  · cases h; rfl
  · split at h
    · cases h; rfl
    · split at h <;> cases h <;> rfl

def obligations : List Lean.Name :=
  [``pass1_errOk, ``pass2Step_errOk, ``assemble_error_has_span, ``link_error_has_span, ``operand_error_span]

end Lc3V.C26
