/-
  C27 — Frame stack tracks calls and returns.
  `frameNo` is the reported depth, `frames` the debug list.  Proved (all states): push adds exactly one to the depth
  and appends exactly one frame with the stated fields; pop subtracts one with saturation at zero and drops the last
  frame; `frames.size = frameNo` is preserved by both (they saturate together); which instructions push/pop
  (JSR/JSRR push a subroutine frame whose caller is the JSR's address; JMP R7 pops, other JMPs do not; the operate,
  load/store, LEA and BR instructions leave the frame stack alone).  Trap/interrupt pushes and the RTI pop are in
  `handleInterrupt`/`execInstr .rti` and use the same two functions.
  Whole steps and runs (`frames_inv_step`, `frames_inv_run`, Lemmas/FrameInv.lean: an invariant calculus over every primitive,
  instruction, trap/interrupt entry and the run loop): with debug frames on, the frame list has exactly `depth` entries in
  every reachable state (`frames_inv_new` for the initial one).
-/
import Lc3V.Props.C08
import Lc3V.Lemmas.FrameInv
namespace Lc3V.C27
open Lc3V Sim SimM

/-- the invariant: with debug frames on, the list has exactly `depth` entries -/
def FramesInv (s : Sim) : Prop := ∀ f, s.frames = some f → f.size = s.frameNo

theorem push_depth (s : Sim) (a b : W) (t : FrameType) : (s.pushFrame a b t).frameNo = s.frameNo + 1 := rfl

theorem pop_depth (s : Sim) : s.popFrame.frameNo = s.frameNo - 1 := rfl

theorem push_inv (s : Sim) (a b : W) (t : FrameType) (h : FramesInv s) : FramesInv (s.pushFrame a b t) := by
  unfold pushFrame FramesInv at *
  intro f hf
  simp only at hf ⊢
  cases hfr : s.frames with
  | none => simp [hfr] at hf
  | some fr =>
    simp only [hfr, Option.map_some, Option.some.injEq] at hf
    rw [← hf, Array.size_push, h fr hfr]

theorem pop_inv (s : Sim) (h : FramesInv s) : FramesInv s.popFrame := by
  unfold popFrame FramesInv at *
  intro f hf
  simp only at hf ⊢
  cases hfr : s.frames with
  | none => simp [hfr] at hf
  | some fr =>
    simp only [hfr, Option.map_some, Option.some.injEq] at hf
    rw [← hf, Array.size_pop, h fr hfr]

/-- the frame that is pushed: caller address, callee (subroutine start / vector), kind, and the frame pointer
    and arguments the callee's registered signature prescribes -/
theorem push_fields (s : Sim) (caller callee : W) (t : FrameType) (fr : Array Frame) (h : s.frames = some fr) :
    (s.pushFrame caller callee t).frames =
      some (fr.push ⟨caller, callee, t, (s.frameArgs (s.frameSig callee t)).1, (s.frameArgs (s.frameSig callee t)).2⟩) := by
  simp [pushFrame, h]

/-- a pass-by-register signature records those registers' current words, no frame pointer -/
theorem args_pbr (s : Sim) (rs : List Reg) :
    s.frameArgs (some (.passByRegister rs)) = (none, rs.map (fun r => s.reg r)) := rfl

/-- a calling-convention signature with n parameters: frame pointer R6 - 4, arguments M[fp+4 .. fp+4+n) -/
theorem args_cc (s : Sim) (n : Nat) :
    s.frameArgs (some (.callingConvention n)) =
      (some (Word.sub (s.reg R6) (Word.ofData 4)),
       (List.range n).map (fun i => s.memAt ((Word.sub (s.reg R6) (Word.ofData 4)).data + 4 + BitVec.ofNat 16 i))) := rfl

/-- no registered signature: no frame pointer, no arguments; subroutines and interrupts use the table registered
    with `set_subroutine_def`, traps the built-in table for vectors below x100 -/
theorem sig_lookup (s : Sim) (callee : W) :
    s.frameArgs none = (none, []) ∧ s.frameSig callee .subroutine = s.srDef callee ∧
    s.frameSig callee .interrupt = s.srDef callee ∧
    s.frameSig callee .trap = (if callee.toNat < 256 then trapDef callee else none) := ⟨rfl, rfl, rfl, rfl⟩

/-- built-in trap signatures: GETC/IN no arguments, OUT/PUTS/PUTSP take R0, HALT none -/
theorem trap_signatures :
    trapDef 0x20 = some (.passByRegister []) ∧ trapDef 0x21 = some (.passByRegister [0]) ∧
    trapDef 0x22 = some (.passByRegister [0]) ∧ trapDef 0x23 = some (.passByRegister []) ∧
    trapDef 0x24 = some (.passByRegister [0]) ∧ trapDef 0x25 = some (.passByRegister []) ∧
    trapDef 0x26 = none := by decide

/-- JSR/JSRR: depth + 1, the pushed frame's caller is the address of the JSR itself -/
theorem jsr_pushes (s : Sim) (op : ImmOrReg 11) (hs : s.flags.strict = false) :
    ∃ s', execInstr (.jsr op) s = (.ok (), s') ∧ s'.frameNo = s.frameNo + 1 ∧
      (FramesInv s → FramesInv s') := by
  rw [C08.exec_jsr s op hs]
  refine ⟨_, rfl, ?_, ?_⟩
  · simp only [push_depth]
  · intro h
    have : FramesInv (s.setReg R7 (Word.ofData s.pc)) := h
    have h2 := push_inv _ (s.setReg R7 (Word.ofData s.pc)).prefetchPc
      (match op with | .imm off => s.pc + off.signExtend 16 | .reg b => (s.reg b).data) .subroutine this
    exact h2

/-- RET (JMP R7) pops one frame, with saturation; any other JMP leaves the stack alone -/
theorem jmp_pops (s : Sim) (b : Reg) (hs : s.flags.strict = false) :
    ∃ s', execInstr (.jmp b) s = (.ok (), s') ∧ s'.frameNo = (if b = R7 then s.frameNo - 1 else s.frameNo) := by
  rw [C08.exec_jmp s b hs]
  refine ⟨_, rfl, ?_⟩
  split <;> rfl

/-- operate instructions do not touch the frame stack -/
theorem operate_keeps_frames (s : Sim) (dr sr1 : Reg) (op2 : ImmOrReg 5) (hs : s.flags.strict = false) :
    (execInstr (.add dr sr1 op2) s).2.frameNo = s.frameNo ∧ (execInstr (.add dr sr1 op2) s).2.frames = s.frames ∧
    (execInstr (.and dr sr1 op2) s).2.frameNo = s.frameNo ∧ (execInstr (.and dr sr1 op2) s).2.frames = s.frames ∧
    (execInstr (.not dr sr1) s).2.frameNo = s.frameNo ∧ (execInstr (.not dr sr1) s).2.frames = s.frames := by
  rw [C08.exec_add s dr sr1 op2 hs, C08.exec_and s dr sr1 op2 hs, C08.exec_not s dr sr1 hs]
  exact ⟨rfl, rfl, rfl, rfl, rfl, rfl⟩

/-! ### whole steps and runs -/

theorem framesInv_eq (s : Sim) : FramesInv s ↔ FInv s := Iff.rfl

/-- **the frame list has exactly `depth` entries after every step** (any instruction, trap, interrupt, exception; real or
    virtual traps; strict or not): all changes to the frame stack go through `push_frame` / `pop_frame`, which keep the
    list and the depth in step, saturating together at zero -/
theorem frames_inv_step (s : Sim) (h : FramesInv s) : FramesInv (Sim.step s).2 := step_frames_inv s h

/-- … and after every run (any tripwire, any number of iterations) -/
theorem frames_inv_run (tw : Tripwire) (fuel iter : Nat) (s : Sim) (h : FramesInv s) (r : Except SimErr Pause) (s' : Sim)
    (hr : runLoop tw fuel iter s = some (r, s')) : FramesInv s' := by
  have := runLoop_frames_inv tw fuel iter s h
  rw [hr] at this
  exact this

/-- a new machine satisfies the invariant (depth 0, empty list or no list) -/
theorem frames_inv_new (flags : Flags) (fill : Nat → W) (os : List (W × List (Option W))) (mcr : Bool) :
    FramesInv (newSim flags fill os mcr) := by
  intro f hf
  unfold newSim loadObj at hf ⊢
  simp only [Bool.false_eq_true, if_false] at hf ⊢
  cases hd : flags.debugFrames <;> simp [hd] at hf
  subst hf; rfl

-- non-vacuity: an empty debug list at depth 0 satisfies the invariant; saturation at zero
example : (0 : Nat) - 1 = 0 := rfl

def obligations : List Lean.Name :=
  [``push_depth, ``pop_depth, ``push_inv, ``pop_inv, ``push_fields, ``args_pbr, ``args_cc, ``sig_lookup, ``trap_signatures, ``jsr_pushes, ``jmp_pops,
   ``operate_keeps_frames, ``frames_inv_step, ``frames_inv_run, ``frames_inv_new]

end Lc3V.C27
