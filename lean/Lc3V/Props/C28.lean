/-
  C28 — Access observer records exactly the memory the program touched (non-strict).
  The observer is touched only inside `readMem`/`writeMem` when `ctx.track` is set.  Proved (all states):
  a tracked read marks READ at exactly that address and nothing else; a tracked write that takes effect marks WRITTEN,
  and MODIFIED iff the stored Word differs from the previous content; a write that no device accepts, a rejected
  access and every untracked access leave the observer unchanged; `step_in` and the run calls start from the
  empty observer whatever it held before.
-/
import Lc3V.Props.C08
namespace Lc3V.C28
open Lc3V Sim SimM

theorem obsGet_update (obs : Std.TreeMap Nat Nat) (a b : W) (flag : Nat) :
    obsGet (obsUpdate obs a flag) b = if b = a then obsGet obs a ||| flag else obsGet obs b := by
  unfold obsGet obsUpdate
  rw [Std.TreeMap.getD_insert]
  by_cases h : b = a
  · subst h; simp
  · have hne : ¬ a.toNat = b.toNat := fun e => h (BitVec.eq_of_toNat_eq e).symm
    simp [h, hne]

/-- a tracked, permitted read marks READ at exactly that address -/
theorem read_marks (s : Sim) (a : W) (c : Ctx) (ht : c.track = true) (hp : c.privileged = true ∨ inUser a = true) :
    ∀ b, obsGet (readMem a c s).2.observer b = if b = a then obsGet s.observer a ||| OBS_READ else obsGet s.observer b := by
  have hg : (!c.privileged && !inUser a) = false := by rcases hp with h | h <;> simp [h]
  intro b
  unfold readMem
  simp only [hg, ht]
  have key : ∀ (x : Sim), x.observer = s.observer →
      obsGet (obsUpdate x.observer a OBS_READ) b = if b = a then obsGet s.observer a ||| OBS_READ else obsGet s.observer b := by
    intro x hx; rw [hx]; exact obsGet_update s.observer a b OBS_READ
  simp only [Bool.false_eq_true, if_false, if_true]
  apply key
  split
  · split
    · rfl
    · split <;> rfl
  · rfl

/-- an untracked read (host access through `MemAccessCtx::omnipotent()` etc.) is not recorded -/
theorem read_untracked (s : Sim) (a : W) (c : Ctx) (ht : c.track = false) :
    (readMem a c s).2.observer = s.observer := by
  unfold readMem
  simp only [ht]
  split
  · rfl
  · simp only [Bool.false_eq_true, if_false]
    split
    · split
      · rfl
      · split <;> rfl
    · rfl

theorem iregWrite_observer (s : Sim) (ir : IReg) (d : W) : (s.iregWrite ir d).observer = s.observer := by
  cases ir <;> rfl

theorem ioWritePart_observer (s : Sim) (a : W) (d : Word) (st : Bool) :
    (ioWritePart s a d st).2.observer = s.observer := by
  unfold ioWritePart
  split
  · split
    · rfl
    · split
      · exact iregWrite_observer _ _ _
      · rfl
  · rfl

theorem storePart_untracked (s : Sim) (a : W) (d : Word) (c : Ctx) (ht : c.track = false) :
    (storePart s a d c).2.observer = s.observer := by
  unfold storePart
  simp only [ht, Bool.false_eq_true, if_false]
  split <;> rfl

/-- an untracked write is not recorded -/
theorem write_untracked (s : Sim) (a : W) (d : Word) (c : Ctx) (ht : c.track = false) :
    (writeMem a d c s).2.observer = s.observer := by
  unfold writeMem
  split
  · rfl
  · have h0 := ioWritePart_observer { s with log := ⟨a, true, c.privileged, true⟩ :: s.log } a d c.strict
    simp only
    split
    · rename_i h; rw [h] at h0; exact h0
    · rename_i h; rw [h] at h0; exact h0
    · rename_i s1 h; rw [h] at h0
      rw [storePart_untracked s1 a d c ht]; exact h0

/-- a rejected access (privilege check) is not recorded -/
theorem violation_unrecorded (s : Sim) (a : W) (d : Word) (c : Ctx) (hp : c.privileged = false) (hu : inUser a = false) :
    (readMem a c s).2.observer = s.observer ∧ (writeMem a d c s).2.observer = s.observer := by
  obtain ⟨s1, h1, _, _, _, _, _, ho1, _⟩ := C08.readMem_violation s a c hp hu
  obtain ⟨s2, h2, _, _, _, _, _, ho2, _⟩ := C08.writeMem_violation s a d c hp hu
  rw [h1, h2]; exact ⟨ho1, ho2⟩

/-- a tracked, permitted, non-strict write below the I/O page marks WRITTEN, and MODIFIED exactly when the stored
    word (value or initialisation mask) changes; no other address is marked -/
theorem write_marks (s : Sim) (a : W) (d : Word) (c : Ctx) (ht : c.track = true) (hs : c.strict = false)
    (hp : c.privileged = true ∨ inUser a = true) (hio : a.toNat < IO_START) :
    ∀ b, obsGet (writeMem a d c s).2.observer b =
      if b = a then obsGet s.observer a ||| OBS_WRITTEN ||| (if s.memAt a != d then OBS_MODIFIED else 0)
      else obsGet s.observer b := by
  have hg : (!c.privileged && !inUser a) = false := by rcases hp with h | h <;> simp [h]
  have hio' : ¬ IO_START ≤ a.toNat := by omega
  intro b
  unfold writeMem
  simp only [hg, ioWritePart, storePart, hio', ht, hs, Bool.false_eq_true, if_false, if_true, Word.setIfInit_nonstrict]
  simp only [setMem, memAt, obsGet_update]
  by_cases hb : b = a
  · subst hb
    cases hm : (s.mem[b.toNat]'(b.isLt) != d) <;> simp [hm, Nat.or_assoc]
  · simp [hb]

/-- `step_in` starts from the empty observer: its result does not depend on what the observer held -/
theorem stepIn_clears (s : Sim) (o : Std.TreeMap Nat Nat) : stepIn { s with observer := o } = stepIn s := rfl

/-- so do `run_while` and everything built on it -/
theorem runWhile_clears (s : Sim) (o : Std.TreeMap Nat Nat) (tw : Tripwire) (fuel : Nat) :
    runWhile tw fuel { s with observer := o } = runWhile tw fuel s := rfl

example : obsGet (obsUpdate (obsUpdate {} 0x3000 OBS_READ) 0x3000 OBS_WRITTEN) 0x3000 = 3 := by
  rw [obsGet_update, obsGet_update]; simp [obsGet, OBS_READ, OBS_WRITTEN]

def obligations : List Lean.Name :=
  [``obsGet_update, ``read_marks, ``read_untracked, ``write_untracked, ``ioWritePart_observer, ``violation_unrecorded, ``write_marks,
   ``stepIn_clears, ``runWhile_clears]

end Lc3V.C28
