/-
  C28 — Access observer records exactly the memory the program touched (non-strict).
  The observer is touched only inside `readMem`/`writeMem` when `ctx.track` is set.  Proved (all states):
  a tracked read marks READ at exactly that address and nothing else; a tracked write that takes effect marks WRITTEN,
  and MODIFIED iff the stored Word differs from the previous content; a write that no device accepts, a rejected
  access and every untracked access leave the observer unchanged; `step_in` and the run calls start from the
  empty observer whatever it held before.
  Whole steps and runs (`stepIn_observer_exact`, `run_observer_exact`; Lemmas/ObsInv.lean, a calculus over every instruction):
  the observer equals the record of the accesses made (the model's ghost access log): READ at exactly the performed reads,
  WRITTEN (below the I/O page) at exactly the performed writes, MODIFIED only with WRITTEN.
-/
import Lc3V.Props.C08
import Lc3V.Lemmas.ObsInv
namespace Lc3V.C28
open Lc3V Sim SimM

theorem obsGet_update (obs : Std.TreeMap Nat Nat) (a b : W) (flag : Nat) :
    obsGet (obsUpdate obs a flag) b = if b = a then obsGet obs a ||| flag else obsGet obs b := by
  unfold obsGet obsUpdate
  rw [Std.TreeMap.getD_insert]
  by_cases h : b = a
  · subst h; simp
  · have hne : ¬ a.toNat = b.toNat := fun e => h (BitVec.eq_of_toNat_eq e).symm
    simp [h, hne]

/-- a tracked, permitted read marks READ at exactly that address -/
theorem read_marks (s : Sim) (a : W) (c : Ctx) (ht : c.track = true) (hp : c.privileged = true ∨ inUser a = true) :
    ∀ b, obsGet (readMem a c s).2.observer b = if b = a then obsGet s.observer a ||| OBS_READ else obsGet s.observer b := by
  have hg : (!c.privileged && !inUser a) = false := by rcases hp with h | h <;> simp [h]
  intro b
  unfold readMem
  simp only [hg, ht]
  have key : ∀ (x : Sim), x.observer = s.observer →
      obsGet (obsUpdate x.observer a OBS_READ) b = if b = a then obsGet s.observer a ||| OBS_READ else obsGet s.observer b := by
    intro x hx; rw [hx]; exact obsGet_update s.observer a b OBS_READ
  simp only [Bool.false_eq_true, if_false, if_true]
  apply key
  split
  · split
    · rfl
    · split <;> rfl
  · rfl

/-- an untracked read (host access through `MemAccessCtx::omnipotent()` etc.) is not recorded -/
theorem read_untracked (s : Sim) (a : W) (c : Ctx) (ht : c.track = false) :
    (readMem a c s).2.observer = s.observer := by
  unfold readMem
  simp only [ht]
  split
  · rfl
  · simp only [Bool.false_eq_true, if_false]
    split
    · split
      · rfl
      · split <;> rfl
    · rfl

theorem iregWrite_observer (s : Sim) (ir : IReg) (d : W) : (s.iregWrite ir d).observer = s.observer := by
  cases ir <;> rfl

theorem ioWritePart_observer (s : Sim) (a : W) (d : Word) (st : Bool) :
    (ioWritePart s a d st).2.observer = s.observer := by
  unfold ioWritePart
  split
  · split
    · rfl
    · split
      · exact iregWrite_observer _ _ _
      · rfl
  · rfl

theorem storePart_untracked (s : Sim) (a : W) (d : Word) (c : Ctx) (ht : c.track = false) :
    (storePart s a d c).2.observer = s.observer := by
  unfold storePart
  simp only [ht, Bool.false_eq_true, if_false]
  split <;> rfl

/-- an untracked write is not recorded -/
theorem write_untracked (s : Sim) (a : W) (d : Word) (c : Ctx) (ht : c.track = false) :
    (writeMem a d c s).2.observer = s.observer := by
  unfold writeMem
  split
  · rfl
  · have h0 := ioWritePart_observer { s with log := ⟨a, true, c.privileged, true⟩ :: s.log } a d c.strict
    simp only
    split
    · rename_i h; rw [h] at h0; exact h0
    · rename_i h; rw [h] at h0; exact h0
    · rename_i s1 h; rw [h] at h0
      rw [storePart_untracked s1 a d c ht]; exact h0

/-- a rejected access (privilege check) is not recorded -/
theorem violation_unrecorded (s : Sim) (a : W) (d : Word) (c : Ctx) (hp : c.privileged = false) (hu : inUser a = false) :
    (readMem a c s).2.observer = s.observer ∧ (writeMem a d c s).2.observer = s.observer := by
  obtain ⟨s1, h1, _, _, _, _, _, ho1, _⟩ := C08.readMem_violation s a c hp hu
  obtain ⟨s2, h2, _, _, _, _, _, ho2, _⟩ := C08.writeMem_violation s a d c hp hu
  rw [h1, h2]; exact ⟨ho1, ho2⟩

/-- a tracked, permitted, non-strict write below the I/O page marks WRITTEN, and MODIFIED exactly when the stored
    word (value or initialisation mask) changes; no other address is marked -/
theorem write_marks (s : Sim) (a : W) (d : Word) (c : Ctx) (ht : c.track = true) (hs : c.strict = false)
    (hp : c.privileged = true ∨ inUser a = true) (hio : a.toNat < IO_START) :
    ∀ b, obsGet (writeMem a d c s).2.observer b =
      if b = a then obsGet s.observer a ||| OBS_WRITTEN ||| (if s.memAt a != d then OBS_MODIFIED else 0)
      else obsGet s.observer b := by
  have hg : (!c.privileged && !inUser a) = false := by rcases hp with h | h <;> simp [h]
  have hio' : ¬ IO_START ≤ a.toNat := by omega
  intro b
  unfold writeMem
  simp only [hg, ioWritePart, storePart, hio', ht, hs, Bool.false_eq_true, if_false, if_true, Word.setIfInit_nonstrict]
  simp only [setMem, memAt, obsGet_update]
  by_cases hb : b = a
  · subst hb
    cases hm : (s.mem[b.toNat]'(b.isLt) != d) <;> simp [hm, Nat.or_assoc]
  · simp [hb]

/-- `step_in` starts from the empty observer: its result does not depend on what the observer held -/
theorem stepIn_clears (s : Sim) (o : Std.TreeMap Nat Nat) : stepIn { s with observer := o } = stepIn s := rfl

/-- so do `run_while` and everything built on it -/
theorem runWhile_clears (s : Sim) (o : Std.TreeMap Nat Nat) (tw : Tripwire) (fuel : Nat) :
    runWhile tw fuel { s with observer := o } = runWhile tw fuel s := rfl

/-! ### whole steps and runs: the observer is exactly the record of the accesses made -/

/-- the empty observer and the empty access log agree -/
theorem obs_inv_start (s : Sim) : OInv { s with observer := {}, log := [] } := by
  intro a
  refine ⟨?_, fun _ => ?_, ?_⟩ <;> simp [obsGet]

/-- **after `step_in`** (which starts from the empty observer): READ is marked at exactly the addresses of the reads the step
    performed (fetch, data reads, indirect pointers, vector-table entries, RTI pops — every `read_mem` of the step, all made
    through tracked contexts); below the I/O page WRITTEN is marked at exactly the addresses of the writes it performed;
    MODIFIED only ever accompanies WRITTEN.  Rejected accesses mark nothing. -/
theorem stepIn_observer_exact (s : Sim) : OInv (stepIn s).2 := by
  have h := step_obs_inv _ (obs_inv_start s)
  unfold stepIn
  dsimp only
  rcases hst : Sim.step { s with observer := {}, log := [] } with ⟨r, s'⟩
  rw [hst] at h
  cases r with
  | ok u => exact h
  | error b => cases b <;> exact h

/-- the same after a run of the event loop from the empty observer (any tripwire, any number of iterations) -/
theorem run_observer_exact (tw : Tripwire) (fuel : Nat) (s : Sim) (r : Except SimErr Pause) (s' : Sim)
    (h : runLoop tw fuel 1 { s with observer := {}, log := [], pause := .unsuccessful, mcr := true } = some (r, s')) : OInv s' := by
  have h0 : OInv ({ s with observer := {}, log := [], pause := .unsuccessful, mcr := true } : Sim) := by
    intro a
    refine ⟨?_, fun _ => ?_, ?_⟩ <;> simp [obsGet]
  have := runLoop_obs_inv tw fuel 1 _ h0
  rw [h] at this
  exact this

example : obsGet (obsUpdate (obsUpdate {} 0x3000 OBS_READ) 0x3000 OBS_WRITTEN) 0x3000 = 3 := by
  rw [obsGet_update, obsGet_update]; simp [obsGet, OBS_READ, OBS_WRITTEN]

def obligations : List Lean.Name :=
  [``obsGet_update, ``read_marks, ``read_untracked, ``write_untracked, ``ioWritePart_observer, ``violation_unrecorded, ``write_marks,
   ``stepIn_clears, ``runWhile_clears, ``stepIn_observer_exact, ``run_observer_exact, ``Lc3V.step_obs_inv]

end Lc3V.C28
