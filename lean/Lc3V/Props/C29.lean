/-
  C29 — Loading places exactly the object image into a fresh machine.
  `copyObjBlock` is specified pointwise for every memory, start address and data of at most 2^16 words (the object
  formats cannot express more), including blocks that wrap past xFFFF: the cell at `start + i` becomes the
  initialised word `data[i]`, or keeps its data with the initialisation mask cleared for a reserved (`.blkw`) cell;
  every other cell is unchanged.  `load_obj_file` folds this over the blocks, rejects files with external symbols,
  and touches neither registers, PC nor PSR.  A new simulator holds the OS image (the generated `Gen.osBlocks`) at
  its addresses, initialised zeros in the I/O page, and the filler's values, uninitialised, everywhere else.
-/
import Lc3V.Model.Sim
import Lc3V.Gen.OsImage
namespace Lc3V.C29
open Lc3V Sim

/-- what loading does to one cell -/
def cellAfter (o : Option W) (old : Word) : Word :=
  match o with
  | some w => Word.ofData w
  | none => old.clearInit

theorem copy_cons (mem : Mem) (start : W) (o : Option W) (rest : List (Option W)) :
    copyObjBlock mem start (o :: rest) =
      copyObjBlock (mem.set start.toNat (cellAfter o (mem[start.toNat]'(start.isLt))) start.isLt) (start + 1) rest := by
  unfold copyObjBlock
  simp only [List.foldl_cons]
  cases o <;> rfl

/-- pointwise specification of `copy_obj_block` (wrapping addresses) -/
theorem copy_spec (data : List (Option W)) (hlen : data.length ≤ 65536) (mem : Mem) (start a : W) :
    (copyObjBlock mem start data)[a.toNat]'(a.isLt) =
      if h : (a - start).toNat < data.length then cellAfter (data[(a - start).toNat]) (mem[a.toNat]'(a.isLt))
      else mem[a.toNat]'(a.isLt) := by
  induction data generalizing mem start with
  | nil => simp [copyObjBlock]
  | cons o rest ih =>
    rw [copy_cons, ih (by simp only [List.length_cons] at hlen; omega)]
    have hl : rest.length ≤ 65535 := by simp only [List.length_cons] at hlen; omega
    by_cases has : a = start
    · subst has
      have h1 : (a - (a + 1)).toNat = 65535 := by
        have : a - (a + 1) = 0xFFFF#16 := by bv_omega
        rw [this]; rfl
      have h0 : (a - a).toNat = 0 := by
        have : a - a = 0#16 := by bv_omega
        rw [this]; rfl
      have h2 : ¬ (a - (a + 1)).toNat < rest.length := by omega
      rw [dif_neg h2, Vector.getElem_set_self]
      have h3 : (a - a).toNat < (o :: rest).length := by rw [h0]; simp
      rw [dif_pos h3]
      congr 1
      simp only [h0, List.getElem_cons_zero]
    · have hne : (a - start).toNat ≠ 0 := by
        intro h0
        apply has
        have : a - start = 0 := by apply BitVec.eq_of_toNat_eq; simpa using h0
        bv_omega
      have hsucc : (a - (start + 1)).toNat = (a - start).toNat - 1 := by bv_omega
      have hidx : start.toNat ≠ a.toNat := fun e => has (BitVec.eq_of_toNat_eq e.symm)
      rw [Vector.getElem_set_ne _ _ hidx]
      generalize hj : (a - start).toNat = j at *
      generalize hj' : (a - (start + 1)).toNat = j' at *
      subst hsucc
      by_cases hlt : j - 1 < rest.length
      · have hlt' : j < (o :: rest).length := by simp only [List.length_cons]; omega
        rw [dif_pos hlt, dif_pos hlt']
        congr 1
        obtain ⟨k, rfl⟩ : ∃ k, j = k + 1 := ⟨j - 1, by omega⟩
        simp
      · have hlt' : ¬ j < (o :: rest).length := by simp only [List.length_cons]; omega
        rw [dif_neg hlt, dif_neg hlt']

/-- cells outside the block are untouched (corollary, in address terms) -/
theorem copy_outside (data : List (Option W)) (hlen : data.length ≤ 65536) (mem : Mem) (start a : W)
    (h : ¬ (a - start).toNat < data.length) :
    (copyObjBlock mem start data)[a.toNat]'(a.isLt) = mem[a.toNat]'(a.isLt) := by
  rw [copy_spec data hlen, dif_neg h]

/-- `load_obj_file` leaves registers, PC, PSR, saved SP, devices and counters alone, and rejects externals -/
theorem load_frame (s : Sim) (blocks : List (W × List (Option W))) (ext : Bool) :
    ((s.loadObj blocks ext).2.regs = s.regs ∧ (s.loadObj blocks ext).2.pc = s.pc ∧ (s.loadObj blocks ext).2.psr = s.psr ∧
     (s.loadObj blocks ext).2.savedSp = s.savedSp ∧ (s.loadObj blocks ext).2.instrRun = s.instrRun) ∧
    (ext = true → (s.loadObj blocks ext) = (.error .unresolvedExternal, s)) := by
  unfold loadObj
  cases ext <;> simp

/-- loading a file without externals is the fold of `copy_obj_block` over its blocks -/
theorem load_mem (s : Sim) (blocks : List (W × List (Option W))) :
    (s.loadObj blocks false).1 = .ok () ∧
    (s.loadObj blocks false).2.mem = blocks.foldl (fun m b => copyObjBlock m b.1 b.2) s.mem := by
  unfold loadObj; simp

/-- single-block file: the pointwise statement of the property -/
theorem load_single (s : Sim) (start : W) (data : List (Option W)) (hlen : data.length ≤ 65536) (a : W) :
    (s.loadObj [(start, data)] false).2.memAt a =
      if h : (a - start).toNat < data.length then cellAfter (data[(a - start).toNat]) (s.memAt a) else s.memAt a := by
  unfold loadObj memAt
  simp only [Bool.false_eq_true, if_false, List.foldl_cons, List.foldl_nil]
  exact copy_spec data hlen s.mem start a

set_option maxRecDepth 100000 in
/-- the OS image is a single block at x0000 whose length is below the user-space start -/
theorem os_shape : Gen.osBlocks = [(0, Gen.osWords0)] ∧ Gen.osWords0.length ≤ 0x3000 := by
  constructor
  · unfold Gen.osBlocks; rfl
  · have := Gen.osWords0_length
    omega

/-- new simulator over any single-block OS image at x0000 -/
theorem new_memory_gen (flags : Flags) (fill : Nat → W) (mcr : Bool) (ws : List (Option W)) (hl : ws.length ≤ 0x3000)
    (a : W) :
    (newSim flags fill [(0, ws)] mcr).memAt a =
      if h : a.toNat < ws.length then cellAfter (ws[a.toNat]) (Word.uninit (fill a.toNat))
      else if IO_START ≤ a.toNat then Word.ofData 0 else Word.uninit (fill a.toNat) := by
  have hl' : ws.length ≤ 65536 := by omega
  have e : (newSim flags fill [(0, ws)] mcr).memAt a =
      (copyObjBlock (Vector.ofFn (fun (i : Fin 65536) =>
        if IO_START ≤ i.val then Word.ofData 0 else Word.uninit (fill i.val))) 0 ws)[a.toNat]'(a.isLt) := by
    unfold newSim
    simp only [loadObj, Bool.false_eq_true, if_false, List.foldl_cons, List.foldl_nil, memAt]
  rw [e, copy_spec ws hl']
  have hz : (a - 0).toNat = a.toNat := by simp
  by_cases h : a.toNat < ws.length
  · have h' : (a - 0).toNat < ws.length := by rw [hz]; exact h
    have hio : ¬ IO_START ≤ a.toNat := by unfold IO_START; omega
    rw [dif_pos h', dif_pos h]
    simp only [hz, Vector.getElem_ofFn, hio, if_false]
  · have h' : ¬ (a - 0).toNat < ws.length := by rw [hz]; exact h
    rw [dif_neg h', dif_neg h]
    simp only [Vector.getElem_ofFn]

/-- new simulator: the OS words are where the generated image says; above them the I/O page is initialised zero
    and everything else is the filler's value, uninitialised -/
theorem new_memory (flags : Flags) (fill : Nat → W) (mcr : Bool) (a : W) :
    (newSim flags fill Gen.osBlocks mcr).memAt a =
      if h : a.toNat < Gen.osWords0.length then cellAfter (Gen.osWords0[a.toNat]) (Word.uninit (fill a.toNat))
      else if IO_START ≤ a.toNat then Word.ofData 0 else Word.uninit (fill a.toNat) := by
  rw [os_shape.1]
  exact new_memory_gen flags fill mcr Gen.osWords0 os_shape.2 a

theorem new_registers (flags : Flags) (fill : Nat → W) (mcr : Bool) (r : Reg) :
    (newSim flags fill Gen.osBlocks mcr).reg r = Word.uninit (fill (65536 + r.toNat)) ∧
    (newSim flags fill Gen.osBlocks mcr).pc = 0x3000 ∧ (newSim flags fill Gen.osBlocks mcr).psr = 0x8002 := by
  refine ⟨?_, rfl, rfl⟩
  unfold newSim loadObj
  simp [reg]

def obligations : List Lean.Name :=
  [``copy_cons, ``copy_spec, ``copy_outside, ``load_frame, ``load_mem, ``load_single, ``os_shape, ``new_memory_gen, ``new_memory,
   ``new_registers]

end Lc3V.C29
