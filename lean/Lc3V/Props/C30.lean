/-
  C30 — Reset restores a fresh machine and keeps configuration.
  `reset` is "new with the same flags and MCR, then put breakpoints, internal-register map and device handler back and
  reset every device".  Proved for every state (deterministic filler): all simulation state equals that of a new
  simulator with the current flags; flags, breakpoints, MCR handle value, internal-register mappings are kept;
  the device handler keeps its port table and device count, each device is `io_reset` of itself.
-/
import Lc3V.Props.C16
import Lc3V.Gen.OsImage
namespace Lc3V.C30
open Lc3V Sim

theorem reset_state (s : Sim) (fill : Nat → W) (os : List (W × List (Option W))) :
    let r := s.reset fill os
    let n := newSim s.flags fill os s.mcr
    r.mem = n.mem ∧ r.regs = n.regs ∧ r.pc = n.pc ∧ r.psr = n.psr ∧ r.savedSp = n.savedSp ∧
    r.frameNo = n.frameNo ∧ r.frames = n.frames ∧ r.srDefs = n.srDefs ∧ r.instrRun = n.instrRun ∧
    r.pause = n.pause ∧ r.prefetch = n.prefetch ∧ r.alloca = n.alloca ∧ r.observer.toList = n.observer.toList := by
  intro r n
  exact ⟨rfl, rfl, rfl, rfl, rfl, rfl, rfl, rfl, rfl, rfl, rfl, rfl, rfl⟩

/-- the fresh values themselves -/
theorem reset_values (s : Sim) (fill : Nat → W) (os : List (W × List (Option W))) :
    let r := s.reset fill os
    r.pc = 0x3000 ∧ r.psr = 0x8002 ∧ r.savedSp = Word.ofData 0x3000 ∧ r.frameNo = 0 ∧ r.instrRun = 0 ∧
    r.hitHalt = false ∧ r.hitBreakpoint = false ∧
    r.frames = (if s.flags.debugFrames then some #[] else none) := by
  intro r
  exact ⟨rfl, rfl, rfl, rfl, rfl, rfl, rfl, rfl⟩

theorem reset_keeps (s : Sim) (fill : Nat → W) (os : List (W × List (Option W))) :
    let r := s.reset fill os
    r.flags = s.flags ∧ r.breakpoints = s.breakpoints ∧ r.mcr = s.mcr ∧ r.iregs = s.iregs ∧
    r.dev.ports = s.dev.ports ∧ r.dev.devices = s.dev.devices.map Device.ioReset := by
  intro r
  exact ⟨rfl, rfl, rfl, rfl, rfl, rfl⟩

/-- devices stay attached: same count, same port ownership, and the port-table invariant survives -/
theorem reset_devices (s : Sim) (fill : Nat → W) (os : List (W × List (Option W))) (h : C16.DevInv s.dev) :
    C16.DevInv (s.reset fill os).dev ∧ (s.reset fill os).dev.devices.size = s.dev.devices.size ∧
    ∀ p, (s.reset fill os).dev.getDevId p = s.dev.getDevId p := by
  refine ⟨C16.ioReset_inv s.dev h, ?_, ?_⟩
  · simp [reset, DevHandler.ioReset]
  · intro p; rfl

/-- what `io_reset` does to the standard devices: keyboard input cleared and interrupts disabled, display cleared
    (when their buffer lock is free), a timer draws a fresh interval -/
theorem ioReset_devices (buf : List UInt8) (ie : Bool) (out : Array UInt8) (t : Timer) :
    Device.ioReset (.keyboard buf ie false) = .keyboard [] false false ∧
    Device.ioReset (.display out false) = .display #[] false ∧
    Device.ioReset (.timer t) = .timer t.reload ∧ Device.ioReset .null = .null := ⟨rfl, rfl, rfl, rfl⟩

def obligations : List Lean.Name :=
  [``reset_state, ``reset_values, ``reset_keeps, ``reset_devices, ``ioReset_devices]

end Lc3V.C30
