/-
  C31 — Seeded simulations are reproducible.
  What can be a theorem: (1) `known_init`: with a Known{v} strategy every register and every memory word outside the
  OS image and the I/O page is ⟨v, uninitialised⟩; (2) the model's whole history is a function of exactly the listed
  inputs — flags, filler stream, OS image, loaded program, device state (keyboard bytes, timer sample streams,
  scripted interrupts, lock flags) — there is no other argument any model function could read (`trace_functional`,
  stated as congruence so the dependency list is explicit).  That the Rust runtime has no further hidden input
  (hash order, `rand::random`, addresses, time) cannot be a theorem about the model: it is checked by the paired-run
  test in the correspondence (two independent interpreters, identical histories), labelled as a test.
-/
import Lc3V.Props.C29
namespace Lc3V.C31
open Lc3V Sim

/-- Known{v}: every memory word outside the OS image and the I/O page is ⟨v, uninit⟩ -/
theorem known_init_mem (flags : Flags) (v : W) (mcr : Bool) (a : W)
    (hos : ¬ a.toNat < Gen.osWords0.length) (hio : a.toNat < IO_START) :
    (newSim flags (fun _ => v) Gen.osBlocks mcr).memAt a = ⟨v, 0⟩ := by
  rw [C29.new_memory, dif_neg hos]
  have : ¬ IO_START ≤ a.toNat := by omega
  simp [this, Word.uninit, Word.NONE]

/-- Known{v}: every register is ⟨v, uninit⟩ -/
theorem known_init_regs (flags : Flags) (v : W) (mcr : Bool) (r : Reg) :
    (newSim flags (fun _ => v) Gen.osBlocks mcr).reg r = ⟨v, 0⟩ := by
  rw [(C29.new_registers flags (fun _ => v) mcr r).1]; rfl

/-- the I/O page starts as initialised zeros whatever the strategy -/
theorem io_page_zero (flags : Flags) (fill : Nat → W) (mcr : Bool) (a : W) (hio : IO_START ≤ a.toNat) :
    (newSim flags fill Gen.osBlocks mcr).memAt a = Word.ofData 0 := by
  have hos : ¬ a.toNat < Gen.osWords0.length := by
    have := C29.os_shape.2; unfold IO_START at hio; omega
  rw [C29.new_memory, dif_neg hos]; simp [hio]

/-- a history: the list of states after each single step -/
def history (s : Sim) : Nat → List (RunRes × Sim)
  | 0 => []
  | n + 1 => let r := s.stepIn; r :: history r.2 n

/-- the history depends on nothing but the initial machine (which contains flags, memory image, devices with their
    input/sample streams and lock flags): equal inputs give equal histories, to any length -/
theorem trace_functional (flags flags' : Flags) (fill fill' : Nat → W) (os os' : List (W × List (Option W)))
    (mcr mcr' : Bool) (setup setup' : Sim → Sim) (n : Nat)
    (h1 : flags = flags') (h2 : fill = fill') (h3 : os = os') (h4 : mcr = mcr') (h5 : setup = setup') :
    history (setup (newSim flags fill os mcr)) n = history (setup' (newSim flags' fill' os' mcr')) n := by
  subst h1 h2 h3 h4 h5; rfl

def obligations : List Lean.Name := [``known_init_mem, ``known_init_regs, ``io_page_zero, ``trace_functional]

end Lc3V.C31
