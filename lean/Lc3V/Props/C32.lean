/-
  C32 — Memory-mapped I/O reaches exactly the mapped register or device.
  Port table = `ports : 512 → device id` (0 = unowned, the null device), internal registers = `iregs`.
  Proved for every handler state / op: a read or write at an I/O address goes to the mapped internal register if
  there is one (devices are not consulted), else to the device whose id the port table holds, else nowhere;
  a write nobody accepts leaves memory unchanged; `add_device` succeeds iff fewer than 2^16 devices were ever added
  and every requested port is an I/O address currently unowned, the id is the number of devices ever added (so ids
  strictly increase and are never reused — removal does not shrink the list); `remove_device` of a non-fixed id
  frees exactly its ports, of ids 0/1/2 frees none (keyboard/display ports stay reserved); the port ids always
  index the device list (C16.DevInv, used here for every op).
-/
import Lc3V.Props.C16
namespace Lc3V.C32
open Lc3V Sim SimM DevHandler

/-- `add_device` succeeds exactly when the id space is not exhausted and every requested port is an unowned I/O port -/
theorem add_ok_iff (h : DevHandler) (d : Device) (addrs : List W) :
    (h.addDevice d addrs).1.isSome = true ↔ (h.devices.size ≤ 65535 ∧ ∀ p ∈ addrs, h.getDevId p = some 0) := by
  unfold addDevice
  by_cases hs : h.devices.size > 65535
  · simp [hs]; omega
  · simp only [hs, if_false]
    by_cases ha : addrs.all (fun p => h.getDevId p == some 0) = true
    · simp only [ha, if_true, Option.isSome_some, true_iff]
      refine ⟨by omega, ?_⟩
      intro p hp
      have := List.all_eq_true.mp ha p hp
      simpa using this
    · simp only [ha]
      simp only [Bool.false_eq_true, if_false, Option.isSome_none, false_iff, not_and]
      intro _ hall
      apply ha
      apply List.all_eq_true.mpr
      intro p hp; simp [hall p hp]

/-- a port is "an I/O address not owned by a device" exactly when its table entry exists and is 0 -/
theorem unowned_iff (h : DevHandler) (p : W) :
    h.getDevId p = some 0 ↔ ∃ i, portIdx p = some i ∧ h.ports[i] = 0 := by
  unfold getDevId
  cases hp : portIdx p with
  | none => simp
  | some i => simp

theorem portIdx_isSome_iff (p : W) : (portIdx p).isSome = true ↔ 0xFE00 ≤ p.toNat := by
  unfold portIdx IO_START
  split <;> simp_all

/-- the id returned is the number of devices ever added; the device list grows by exactly one -/
theorem add_id (h : DevHandler) (d : Device) (addrs : List W) (id : Nat) (hok : (h.addDevice d addrs).1 = some id) :
    id = h.devices.size ∧ (h.addDevice d addrs).2.devices.size = h.devices.size + 1 := by
  have key : ∀ (l : List W) (x : DevHandler), (l.foldl (fun acc p => acc.setPort p h.devices.size) x).devices.size = x.devices.size := by
    intro l
    induction l with
    | nil => intro x; rfl
    | cons a rest ih => intro x; simp only [List.foldl_cons]; rw [ih, C16.setPort_size]
  unfold addDevice at *
  by_cases hs : h.devices.size > 65535
  · simp [hs] at hok
  · by_cases ha : addrs.all (fun p => h.getDevId p == some 0) = true
    · simp only [hs, ha, if_true, if_false, Option.some.injEq] at hok ⊢
      refine ⟨hok.symm, ?_⟩
      rw [key]; simp
    · simp [hs, ha] at hok

/-- a failed add changes nothing -/
theorem add_fail_noop (h : DevHandler) (d : Device) (addrs : List W) (hf : (h.addDevice d addrs).1 = none) :
    (h.addDevice d addrs).2 = h := by
  unfold addDevice at *
  by_cases hs : h.devices.size > 65535
  · simp [hs]
  · by_cases ha : addrs.all (fun p => h.getDevId p == some 0) = true
    · simp [hs, ha] at hf
    · simp [hs, ha]

/-- removal never shrinks the device list: ids are never reused -/
theorem remove_size (h : DevHandler) (id : Nat) : (h.removeDevice id).devices.size = h.devices.size := by
  unfold removeDevice
  split
  · split <;> simp
  · rfl

/-- removing a non-fixed device frees exactly its ports -/
theorem remove_frees (h : DevHandler) (id : Nat) (hlt : id < h.devices.size) (hfix : ¬ (id = 0 ∨ id = 1 ∨ id = 2))
    (i : Fin 512) : (h.removeDevice id).ports[i] = if h.ports[i] = id then 0 else h.ports[i] := by
  unfold removeDevice
  simp only [hlt, if_true, hfix, if_false, Fin.getElem_fin, Vector.getElem_map]

/-- keyboard / display / null ports stay reserved when those devices are removed -/
theorem remove_fixed_keeps_ports (h : DevHandler) (id : Nat) (hfix : id = 0 ∨ id = 1 ∨ id = 2) :
    (h.removeDevice id).ports = h.ports := by
  unfold removeDevice
  split
  · simp [hfix]
  · rfl

/-- replacing the keyboard or display never changes the port table -/
theorem set_kb_ds_ports (h : DevHandler) (d : Device) :
    (h.setKeyboard d).ports = h.ports ∧ (h.setDisplay d).ports = h.ports := ⟨rfl, rfl⟩

/-- dispatch, read side: an address with a mapped internal register reads that register; devices are not consulted -/
theorem read_ireg_precedence (s : Sim) (a : W) (c : Ctx) (ir : IReg) (hp : c.privileged = true)
    (hio : IO_START ≤ a.toNat) (hm : s.iregLookup a = some ir) :
    (readMem a c s).1 = .ok (Word.ofData (s.iregRead ir)) ∧ (readMem a c s).2.dev = s.dev := by
  have hl : ∀ (l : List Access), ({ s with log := l } : Sim).iregLookup a = some ir := fun _ => hm
  unfold readMem
  simp only [hp, Bool.not_true, Bool.false_and, Bool.false_eq_true, if_false, hio, if_true, hl]
  by_cases ht : c.track = true <;> simp [ht, memAt, setMem, Word.set, Word.ofData, iregRead]

/-- dispatch, read side: no internal register ⇒ the device owning the port (per the table) is asked, and only it -/
theorem read_device_dispatch (s : Sim) (a : W) (c : Ctx) (hp : c.privileged = true) (hio : IO_START ≤ a.toNat)
    (hm : s.iregLookup a = none) :
    (readMem a c s).2.dev = (s.dev.ioRead a c.ioEffects).2 := by
  have hl : ∀ (l : List Access), ({ s with log := l } : Sim).iregLookup a = none := fun _ => hm
  unfold readMem
  simp only [hp, Bool.not_true, Bool.false_and, Bool.false_eq_true, if_false, hio, if_true, hl]
  cases hr : (s.dev.ioRead a c.ioEffects).1 <;> by_cases ht : c.track = true <;> simp [ht, hr, setMem]

/-- an unowned port (id 0 = the null device) answers no read and accepts no write -/
theorem unowned_port_silent (h : DevHandler) (a d : W) (e : Bool) (hu : h.getDevId a = some 0)
    (h0 : h.devices.getD 0 .null = .null) :
    (h.ioRead a e).1 = none ∧ (h.ioWrite a d).1 = false := by
  unfold DevHandler.ioRead DevHandler.ioWrite
  simp [hu, h0, Device.ioRead, Device.ioWrite]

/-- writes to unowned ports leave memory (and everything but the ghost log / device list identity) unchanged -/
theorem write_unowned_noop (s : Sim) (a : W) (w : Word) (c : Ctx) (hp : c.privileged = true)
    (hio : IO_START ≤ a.toNat) (hm : s.iregLookup a = none) (hs : c.strict = false)
    (hw : (s.dev.ioWrite a w.data).1 = false) :
    (writeMem a w c s).1 = .ok () ∧ (writeMem a w c s).2.mem = s.mem ∧ (writeMem a w c s).2.regs = s.regs ∧
    (writeMem a w c s).2.pc = s.pc ∧ (writeMem a w c s).2.psr = s.psr := by
  have hl : ∀ (l : List Access), ({ s with log := l } : Sim).iregLookup a = none := fun _ => hm
  unfold writeMem
  simp only [hp, Bool.not_true, Bool.false_and, Bool.false_eq_true, if_false, ioWritePart, hio, if_true, hs,
    Word.getIfInit_nonstrict, hl, hw]
  simp

/-- `mmap_internal` succeeds exactly on an I/O address with no internal register mapped there -/
theorem mmap_ok_iff (s : Sim) (a : W) (r : IReg) :
    (s.mmapInternal a r).1 = .ok () ↔ (IO_START ≤ a.toNat ∧ s.iregLookup a = none) := by
  unfold mmapInternal
  by_cases h1 : a.toNat < IO_START
  · simp [h1]; omega
  · simp only [h1, if_false]
    cases hl : s.iregLookup a <;> simp [hl] <;> omega

example : (DevHandler.new.addDevice .null [0xFE10]).1 = some 3 := by decide
example : (DevHandler.new.addDevice .null [0xFE00]).1 = none := by decide
example : (DevHandler.new.addDevice .null [0x3000]).1 = none := by decide

def obligations : List Lean.Name :=
  [``add_ok_iff, ``unowned_iff, ``portIdx_isSome_iff, ``add_id, ``add_fail_noop, ``remove_size, ``remove_frees,
   ``remove_fixed_keeps_ports, ``set_kb_ds_ports, ``read_ireg_precedence, ``read_device_dispatch,
   ``unowned_port_silent, ``write_unowned_noop, ``mmap_ok_iff]

end Lc3V.C32
