/-
  C33 — Keyboard and display deliver bytes exactly once under lock contention.
  The buffer lock held by another thread is the Boolean `locked` of the device (it can change only between
  instructions — exactly what `try_write` observes).  Proved at the device / memory-access level, for all states:
   * lock free: a KBDR read consumes exactly the front byte and returns it; a DDR store appends exactly one byte
     (`kbdr_free_exactly_once`, `ddr_free_exactly_once`);
   * lock held at a *poll*: KBSR / DSR read "not ready" and nothing changes — a program that polls for readiness
     (as the OS traps do) just polls again (`poll_denied_harmless`);
   * lock held at the KBDR read or the DDR store themselves: the read returns nothing (the simulator then hands the
     program the stale memory mirror and the byte stays queued) and the store is refused (the byte is lost)
     — `kbdr_denied_stale`, `ddr_denied_lost`.  This is the mechanism of the recorded finding F19: the full property
     is false of the current code; the check reproduces it on the implementation and reports it as KNOWN-FINDING.
  `exactly_once_partial`: the positive statement under "no lock held at a KBDR read or DDR store" is, at this level,
  the first two bullets; its lifting to whole GETC/OUT/PUTS programs needs C11's routine specs (in progress) and is
  checked by the correspondence oracle meanwhile.
-/
import Lc3V.Props.C08
namespace Lc3V.C33
open Lc3V Sim SimM

/-- lock free: reading KBDR (with effects) pops exactly the front byte and returns it -/
theorem kbdr_free_exactly_once (b : UInt8) (rest : List UInt8) (ie : Bool) :
    Device.ioRead (.keyboard (b :: rest) ie false) KBDR true =
      (some (BitVec.ofNat 16 b.toNat), .keyboard rest ie false) := by
  simp [Device.ioRead, KBDR, KBSR]

/-- an effect-free read (host inspection) returns the front byte without consuming it -/
theorem kbdr_peek (b : UInt8) (rest : List UInt8) (ie : Bool) :
    Device.ioRead (.keyboard (b :: rest) ie false) KBDR false =
      (some (BitVec.ofNat 16 b.toNat), .keyboard (b :: rest) ie false) := by
  simp [Device.ioRead, KBDR, KBSR]

/-- lock free: a DDR store appends exactly the low byte of the datum -/
theorem ddr_free_exactly_once (buf : Array UInt8) (d : W) :
    Device.ioWrite (.display buf false) DDR d = (true, .display (buf.push (UInt8.ofNat (d.toNat % 256))) false) := by
  simp [Device.ioWrite, DDR]

/-- KBSR reports ready (bit 15) exactly when the lock is free and a byte is queued -/
theorem kbsr_ready_iff (buf : List UInt8) (ie locked : Bool) :
    ∃ v, Device.ioRead (.keyboard buf ie locked) KBSR true = (some v, .keyboard buf ie locked) ∧
      (v.msb = true ↔ (locked = false ∧ buf ≠ [])) := by
  cases locked <;> cases ie <;> cases buf <;> simp [Device.ioRead, KBSR] <;> decide

/-- a denied poll is harmless: KBSR / DSR read "not ready", nothing is consumed or emitted -/
theorem poll_denied_harmless (buf : List UInt8) (ie : Bool) (out : Array UInt8) :
    (∃ v, Device.ioRead (.keyboard buf ie true) KBSR true = (some v, .keyboard buf ie true) ∧ v.msb = false) ∧
    Device.ioRead (.display out true) DSR true = (some 0, .display out true) := by
  constructor
  · cases ie <;> simp [Device.ioRead, KBSR] <;> decide
  · simp [Device.ioRead, DSR]

/-- F19, input side: with the lock held the KBDR read answers nothing and the byte stays queued -/
theorem kbdr_denied_stale (buf : List UInt8) (ie eff : Bool) :
    Device.ioRead (.keyboard buf ie true) KBDR eff = (none, .keyboard buf ie true) := by
  simp [Device.ioRead, KBDR, KBSR]

/-- F19, output side: with the lock held the DDR store is refused and nothing is appended -/
theorem ddr_denied_lost (buf : Array UInt8) (d : W) :
    Device.ioWrite (.display buf true) DDR d = (false, .display buf true) := by
  simp [Device.ioWrite, DDR]

/-- what the program then sees: a device read that answers nothing leaves the memory mirror as it was, so the load
    returns the previous (stale) word -/
theorem unanswered_read_returns_mirror (s : Sim) (a : W) (c : Ctx) (hp : c.privileged = true)
    (hio : IO_START ≤ a.toNat) (hm : s.iregLookup a = none) (hn : (s.dev.ioRead a c.ioEffects).1 = none) :
    (readMem a c s).1 = .ok (s.memAt a) ∧ (readMem a c s).2.mem = s.mem := by
  have hl : ∀ (l : List Access), ({ s with log := l } : Sim).iregLookup a = none := fun _ => hm
  unfold readMem
  simp only [hp, Bool.not_true, Bool.false_and, Bool.false_eq_true, if_false, hio, if_true, hl, hn]
  by_cases ht : c.track = true <;> simp [ht]

-- the concrete witness of F19 at the device level: input "AB", lock held at the first KBDR read
example : (Device.ioRead (.keyboard [0x41, 0x42] false true) KBDR true).1 = none := by decide
example : (Device.ioRead (.keyboard [0x41, 0x42] false false) KBDR true).1 = some 0x41 := by decide

def obligations : List Lean.Name :=
  [``kbdr_free_exactly_once, ``kbdr_peek, ``ddr_free_exactly_once, ``kbsr_ready_iff, ``poll_denied_harmless,
   ``kbdr_denied_stale, ``ddr_denied_lost, ``unanswered_read_returns_mirror]

end Lc3V.C33
