/-
  C33 — Keyboard and display deliver bytes exactly once under lock contention.
  The buffer lock held by another thread is the Boolean `locked` of the device (it can change only between
  instructions — exactly what `try_write` observes).  Proved at the device / memory-access level, for all states:
   * lock free: a KBDR read consumes exactly the front byte and returns it; a DDR store appends exactly one byte
     (`kbdr_free_exactly_once`, `ddr_free_exactly_once`);
   * lock held at a *poll*: KBSR / DSR read "not ready" and nothing changes — a program that polls for readiness
     (as the OS traps do) just polls again (`poll_denied_harmless`);
   * lock held at the KBDR read or the DDR store themselves: the read returns nothing (the simulator then hands the
     program the stale memory mirror and the byte stays queued) and the store is refused (the byte is lost)
     — `kbdr_denied_stale`, `ddr_denied_lost`.  This is the mechanism of the recorded finding F19: the full property
     is false of the current code; the check reproduces it on the implementation and reports it as KNOWN-FINDING.
  `exactly_once_partial`: the positive statement under "no lock held at a KBDR read or DDR store" is, at this level,
  the first two bullets; its lifting to whole GETC/OUT/PUTS programs needs C11's routine specs (in progress) and is
  checked by the correspondence oracle meanwhile.
-/
import Lc3V.Props.C08
import Lc3V.Gen.OsImage
namespace Lc3V.C33
open Lc3V Sim SimM

/-- lock free: reading KBDR (with effects) pops exactly the front byte and returns it -/
theorem kbdr_free_exactly_once (b : UInt8) (rest : List UInt8) (ie : Bool) :
    Device.ioRead (.keyboard (b :: rest) ie false) KBDR true =
      (some (BitVec.ofNat 16 b.toNat), .keyboard rest ie false) := by
  simp [Device.ioRead, KBDR, KBSR]

/-- an effect-free read (host inspection) returns the front byte without consuming it -/
theorem kbdr_peek (b : UInt8) (rest : List UInt8) (ie : Bool) :
    Device.ioRead (.keyboard (b :: rest) ie false) KBDR false =
      (some (BitVec.ofNat 16 b.toNat), .keyboard (b :: rest) ie false) := by
  simp [Device.ioRead, KBDR, KBSR]

/-- lock free: a DDR store appends exactly the low byte of the datum -/
theorem ddr_free_exactly_once (buf : Array UInt8) (d : W) :
    Device.ioWrite (.display buf false) DDR d = (true, .display (buf.push (UInt8.ofNat (d.toNat % 256))) false) := by
  simp [Device.ioWrite, DDR]

/-- KBSR reports ready (bit 15) exactly when the lock is free and a byte is queued -/
theorem kbsr_ready_iff (buf : List UInt8) (ie locked : Bool) :
    ∃ v, Device.ioRead (.keyboard buf ie locked) KBSR true = (some v, .keyboard buf ie locked) ∧
      (v.msb = true ↔ (locked = false ∧ buf ≠ [])) := by
  cases locked <;> cases ie <;> cases buf <;> simp [Device.ioRead, KBSR] <;> decide

/-- a denied poll is harmless: KBSR / DSR read "not ready", nothing is consumed or emitted -/
theorem poll_denied_harmless (buf : List UInt8) (ie : Bool) (out : Array UInt8) :
    (∃ v, Device.ioRead (.keyboard buf ie true) KBSR true = (some v, .keyboard buf ie true) ∧ v.msb = false) ∧
    Device.ioRead (.display out true) DSR true = (some 0, .display out true) := by
  constructor
  · cases ie <;> simp [Device.ioRead, KBSR] <;> decide
  · simp [Device.ioRead, DSR]

/-- F19, input side: with the lock held the KBDR read answers nothing and the byte stays queued -/
theorem kbdr_denied_stale (buf : List UInt8) (ie eff : Bool) :
    Device.ioRead (.keyboard buf ie true) KBDR eff = (none, .keyboard buf ie true) := by
  simp [Device.ioRead, KBDR, KBSR]

/-- F19, output side: with the lock held the DDR store is refused and nothing is appended -/
theorem ddr_denied_lost (buf : Array UInt8) (d : W) :
    Device.ioWrite (.display buf true) DDR d = (false, .display buf true) := by
  simp [Device.ioWrite, DDR]

/-- what the program then sees: a device read that answers nothing leaves the memory mirror as it was, so the load
    returns the previous (stale) word -/
theorem unanswered_read_returns_mirror (s : Sim) (a : W) (c : Ctx) (hp : c.privileged = true)
    (hio : IO_START ≤ a.toNat) (hm : s.iregLookup a = none) (hn : (s.dev.ioRead a c.ioEffects).1 = none) :
    (readMem a c s).1 = .ok (s.memAt a) ∧ (readMem a c s).2.mem = s.mem := by
  have hl : ∀ (l : List Access), ({ s with log := l } : Sim).iregLookup a = none := fun _ => hm
  unfold readMem
  simp only [hp, Bool.not_true, Bool.false_and, Bool.false_eq_true, if_false, hio, if_true, hl, hn]
  by_cases ht : c.track = true <;> simp [ht]

-- the concrete witness of F19 at the device level: input "AB", lock held at the first KBDR read
example : (Device.ioRead (.keyboard [0x41, 0x42] false true) KBDR true).1 = none := by decide
example : (Device.ioRead (.keyboard [0x41, 0x42] false false) KBDR true).1 = some 0x41 := by decide

/-! ### the OS listing: data registers are touched only behind a poll of the ready bit -/
section Listing
open Lc3V.Gen

/-- word of the OS image at address `a` (block 0 starts at x0000) -/
def osAt (a : Nat) : Option W := (osWords0[a]?).join

/-- the cell a PC-relative 9-bit operand of the instruction `w` at address `a` points at -/
def ptrCell (a : Nat) (w : W) : Option W :=
  let off := w.toNat % 512
  if off ≥ 256 then (if a + 1 + off ≥ 512 then osAt (a + 1 + off - 512) else none) else osAt (a + 1 + off)

/-- `w` at `a` is LDI (`op = 0xA`) or STI (`op = 0xB`) through a pointer cell that holds the device register `reg` -/
def accessVia (op reg a : Nat) : Bool :=
  match osAt a with
  | some w => w.toNat / 4096 == op && (ptrCell a w).map (·.toNat) == some reg
  | none => false

/-- addresses of the OS instructions that access device register `reg` with opcode `op` -/
def accesses (op reg : Nat) : List Nat := (List.range osWords0.length).filter (accessVia op reg)

/-- ADD, AND, NOT, LDR: instructions that neither branch nor name a device register -/
def plainAt (a : Nat) : Bool :=
  match osAt a with
  | some w => let op := w.toNat / 4096; op == 1 || op == 5 || op == 9 || op == 6
  | none => false

/-- the access at `a` is reached only through the exit of a two-instruction poll loop
    `LDI Rx, <status>` ; `BRzp <the LDI>`, followed by at most three plain instructions (the OS restores R0 from its stack
    between the poll and the store) -/
def polled (status a : Nat) : Bool :=
  (List.range 4).any fun k =>
    decide (2 + k ≤ a) && accessVia 0xA status (a - 2 - k) && (osAt (a - 1 - k) == some 0x07FE) &&
      (List.range k).all fun j => plainAt (a - k + j)

/-- every address some OS word can transfer control to other than by falling through: BR / JSR targets and the contents of
    the trap and interrupt vector tables (x0000-x01FF) (RET / RTI / JSRR / JMP go where a caller or the stack says) -/
def jumpTargets : List Nat :=
  (List.range osWords0.length).filterMap fun b =>
    match osAt b with
    | none => none
    | some w =>
      let v := w.toNat
      if b < 512 then some v
      else if v / 4096 == 0 && (v / 512) % 8 != 0 then some ((b + 1 + (if v % 512 ≥ 256 then v % 512 + 65536 - 512 else v % 512)) % 65536)
      else if v / 4096 == 4 && (v / 2048) % 2 == 1 then some ((b + 1 + (if v % 2048 ≥ 1024 then v % 2048 + 65536 - 2048 else v % 2048)) % 65536)
      else none

/-- the length of the plain stretch between the poll loop and the access at `a` -/
def pollGap (status a : Nat) : Option Nat :=
  (List.range 4).find? fun k =>
    decide (2 + k ≤ a) && accessVia 0xA status (a - 2 - k) && (osAt (a - 1 - k) == some 0x07FE) &&
      (List.range k).all fun j => plainAt (a - k + j)

/-- nothing jumps into the stretch `BRzp ; plain* ; access`: it is entered only by falling out of the poll loop -/
def sealed (status a : Nat) : Bool :=
  match pollGap status a with
  | some k => jumpTargets.all fun t => !(decide (a - 1 - k ≤ t) && decide (t ≤ a))
  | none => false

set_option maxRecDepth 100000 in
/-- every OS instruction that reads KBDR sits directly behind a KBSR poll loop, every one that stores to DDR directly behind
    a DSR poll loop: no OS routine touches a device's data register without having just seen its ready bit. -/
theorem os_data_accesses_polled :
    (∀ a ∈ accesses 0xA 0xFE02, polled 0xFE00 a = true) ∧ (∀ a ∈ accesses 0xB 0xFE06, polled 0xFE04 a = true) ∧
    (∀ a ∈ accesses 0xA 0xFE02, sealed 0xFE00 a = true) ∧ (∀ a ∈ accesses 0xB 0xFE06, sealed 0xFE04 a = true) ∧
    accesses 0xA 0xFE02 ≠ [] ∧ accesses 0xB 0xFE06 ≠ [] := by
  decide +kernel

end Listing

def obligations : List Lean.Name :=
  [``kbdr_free_exactly_once, ``kbdr_peek, ``ddr_free_exactly_once, ``kbsr_ready_iff, ``poll_denied_harmless,
   ``kbdr_denied_stale, ``ddr_denied_lost, ``unanswered_read_returns_mirror, ``os_data_accesses_polled]

end Lc3V.C33
