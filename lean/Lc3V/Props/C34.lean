/-
  C34 — Timer interrupts follow the configured interval.
  `pollN t n` polls the model timer n times and lists, per poll, whether it fired.  The timer draws its reload values
  from the sample list (the harness feeds it the values the real StdRng drew; `StdRng` honouring its range is
  assumed).  Proved for every timer state and every sample stream: after an interrupt (or any state with the
  countdown at 0), the next interrupt comes after exactly `n` silent polls, where `n` is the next sample — so the
  number of polls strictly between consecutive interrupts IS the sample, hence within [lo,hi] whenever the
  samples are, and exactly n for an exact count n (n = 0 included, after fix F20); the first interrupt after
  enable/reset comes within (current countdown) polls, at most hi+1; a disabled timer never fires and does not
  move; the firing sequence is a function of the samples (determinism).
-/
import Lc3V.Model.Dev
namespace Lc3V.C34
open Lc3V

/-- poll `n` times; the Boolean list says which polls raised the interrupt -/
def pollN (t : Timer) : Nat → Timer × List Bool
  | 0 => (t, [])
  | n + 1 =>
    let r := t.poll
    let rest := pollN r.1 n
    (rest.1, r.2.isSome :: rest.2)

theorem pollN_add (t : Timer) (a b : Nat) :
    pollN t (a + b) = ((pollN (pollN t a).1 b).1, (pollN t a).2 ++ (pollN (pollN t a).1 b).2) := by
  induction a generalizing t with
  | zero => simp [pollN]
  | succ a ih =>
    have : a + 1 + b = (a + b) + 1 := by omega
    rw [this]
    simp only [pollN, ih, List.cons_append]

/-- a disabled timer never raises an interrupt and its countdown does not move -/
theorem disabled_silent (t : Timer) (h : t.enabled = false) (n : Nat) :
    pollN t n = (t, List.replicate n false) := by
  induction n with
  | zero => rfl
  | succ n ih =>
    have hp : t.poll = (t, none) := by simp [Timer.poll, h]
    simp only [pollN, hp, ih, List.replicate_succ, Option.isSome_none]

/-- counting down: from a countdown of m+1 the timer is silent for m polls and fires on the next one -/
theorem countdown (t : Timer) (h : t.enabled = true) (m : Nat) (ht : t.time = m + 1) :
    pollN t (m + 1) = ({ t with time := 0 }, List.replicate m false ++ [true]) := by
  induction m generalizing t with
  | zero =>
    have hp : t.poll = ({ t with time := 0 }, some (Interrupt.mkVectored t.vect t.prio)) := by
      simp [Timer.poll, h, ht]
    simp [pollN, hp]
  | succ m ih =>
    have hp : t.poll = ({ t with time := m + 1 }, none) := by
      simp [Timer.poll, h, ht]
    have h2 := ih { t with time := m + 1 } h rfl
    have e : pollN t (m + 1 + 1) = ((pollN t.poll.1 (m + 1)).1, t.poll.2.isSome :: (pollN t.poll.1 (m + 1)).2) := rfl
    rw [e, hp]
    simp only [Option.isSome_none, h2]
    simp [List.replicate_succ]

/-- **gap = sample**: with the countdown at 0 (the state right after an interrupt) and next sample `n`, the timer is
    silent for exactly `n` polls and fires on poll `n+1`; it is then again at 0 with the sample consumed. -/
theorem gap_is_sample (t : Timer) (h : t.enabled = true) (ht : t.time = 0) (n : Nat) (rest : List Nat)
    (hs : t.samples = n :: rest) :
    pollN t (n + 1) = ({ t with time := 0, samples := rest }, List.replicate n false ++ [true]) := by
  cases n with
  | zero =>
    have hp : t.poll = ({ t with time := 0, samples := rest }, some (Interrupt.mkVectored t.vect t.prio)) := by
      simp [Timer.poll, h, ht, Timer.reload, hs]
    simp [pollN, hp]
  | succ m =>
    have hp : t.poll = ({ t with time := m + 1, samples := rest }, none) := by
      simp [Timer.poll, h, ht, Timer.reload, hs]
    have hc := countdown { t with time := m + 1, samples := rest } h m rfl
    have : m + 1 + 1 = 1 + (m + 1) := by omega
    rw [this, pollN_add]
    have h1 : pollN t 1 = ({ t with time := m + 1, samples := rest }, [false]) := by simp [pollN, hp]
    rw [h1]
    simp only [hc]
    simp [List.replicate_succ]

/-- consecutive interrupts: the gaps are the samples, one after the other (any number of rounds) -/
theorem gaps_are_samples (t : Timer) (h : t.enabled = true) (ht : t.time = 0) (ns rest : List Nat)
    (hs : t.samples = ns ++ rest) :
    pollN t ((ns.map (· + 1)).sum) =
      ({ t with time := 0, samples := rest }, (ns.map (fun n => List.replicate n false ++ [true])).flatten) := by
  induction ns generalizing t with
  | nil =>
    simp only [List.nil_append] at hs
    simp only [List.map_nil, List.sum_nil, List.flatten_nil, pollN]
    rw [← hs, ← ht]
  | cons n ns ih =>
    simp only [List.map_cons, List.sum_cons, List.flatten_cons]
    rw [pollN_add, gap_is_sample t h ht n (ns ++ rest) (by simpa using hs)]
    have := ih { t with time := 0, samples := ns ++ rest } h rfl rfl
    simp only [this]

/-- within the range: if every sample lies in [lo,hi], every gap does -/
theorem gaps_in_range (ns : List Nat) (lo hi : Nat) (h : ∀ n ∈ ns, lo ≤ n ∧ n ≤ hi) :
    ∀ g ∈ ns.map (fun n => (List.replicate n false ++ [true])), lo ≤ g.length - 1 ∧ g.length - 1 ≤ hi := by
  intro g hg
  simp only [List.mem_map] at hg
  obtain ⟨n, hn, rfl⟩ := hg
  simp only [List.length_append, List.length_replicate, List.length_cons, List.length_nil]
  have := h n hn
  omega

/-- first interrupt after enable / reset: with countdown c ≥ 1 it comes on poll c; with c = 0 on poll (next sample)+1;
    in both cases at most hi + 1 polls when countdown and samples are at most hi -/
theorem first_interrupt (t : Timer) (h : t.enabled = true) (n : Nat) (rest : List Nat) (hs : t.samples = n :: rest)
    (hi : Nat) (hc : t.time ≤ hi) (hn : n ≤ hi) :
    ∃ k, k ≤ hi + 1 ∧ ∃ t', pollN t k = (t', List.replicate (k - 1) false ++ [true]) := by
  cases hc' : t.time with
  | zero => exact ⟨n + 1, by omega, _, by simpa using gap_is_sample t h hc' n rest hs⟩
  | succ m => exact ⟨m + 1, by omega, _, by simpa using countdown t h m hc'⟩

/-- the timer recurs: from any enabled state with samples left it fires again -/
theorem recurs (t : Timer) (h : t.enabled = true) (n : Nat) (rest : List Nat) (hs : t.samples = n :: rest) :
    ∃ k t', (pollN t k).1 = t' ∧ (pollN t k).2.getLast? = some true := by
  cases hc' : t.time with
  | zero => exact ⟨n + 1, _, rfl, by rw [gap_is_sample t h hc' n rest hs]; simp⟩
  | succ m => exact ⟨m + 1, _, rfl, by rw [countdown t h m hc']; simp⟩

/-- determinism: the firing sequence is a function of the timer state and its samples -/
theorem deterministic (t t' : Timer) (h : t = t') (n : Nat) : pollN t n = pollN t' n := by rw [h]

/-- reset_remaining / io_reset draw exactly one sample -/
theorem reload_draws_one (t : Timer) (n : Nat) (rest : List Nat) (hs : t.samples = n :: rest) :
    t.reload = { t with time := n, samples := rest } := by simp [Timer.reload, hs]

-- non-vacuity: exact count 3 (three silent polls, then the interrupt); exact count 0 fires on every poll
example : (pollN { enabled := true, time := 0, vect := 0x81, prio := 4, samples := [3, 3] } 8).2 =
    [false, false, false, true, false, false, false, true] := by decide
example : (pollN { enabled := true, time := 0, vect := 0x81, prio := 4, samples := [0, 0, 0] } 3).2 = [true, true, true] := by decide

def obligations : List Lean.Name :=
  [``disabled_silent, ``countdown, ``gap_is_sample, ``gaps_are_samples, ``gaps_in_range, ``first_interrupt, ``recurs,
   ``deterministic, ``reload_draws_one, ``pollN_add]

end Lc3V.C34
