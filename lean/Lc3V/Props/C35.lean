/-
  C35 — Bounded offsets accept exactly the representable values.
  Property theorems only; helper lemmas live in Lemmas/Offset.lean.
-/
import Lc3V.Lemmas.Offset
import Lc3V.Model.Asm
namespace Lc3V.C35
open Lc3V

/-- Creating an unsigned N-bit offset succeeds exactly when the value is below 2^N. -/
theorem new_unsigned_iff (n : Nat) (h1 : 1 ≤ n) (h2 : n ≤ 16) (v : W) :
    (newU n v).isOk = true ↔ v.toNat < 2 ^ n := by
  have ht := truncU_toNat n h1 h2 v
  have hv := v.isLt
  unfold newU
  rw [if_neg (by omega), if_neg (by omega)]
  constructor
  · intro h
    split at h
    · rename_i heq
      have : v.toNat = v.toNat % 2 ^ n := by rw [← ht, ← heq]
      rw [this]; exact Nat.mod_lt _ (Nat.two_pow_pos n)
    · simp [Outcome.isOk] at h
  · intro h
    have : v = truncU n v := by
      apply BitVec.eq_of_toNat_eq; rw [ht, Nat.mod_eq_of_lt h]
    rw [if_pos this]; rfl

/-- Creating a signed N-bit offset succeeds exactly when the value is in [-2^(N-1), 2^(N-1)). -/
theorem new_signed_iff (n : Nat) (h1 : 1 ≤ n) (h2 : n ≤ 16) (v : W) :
    (newS n v).isOk = true ↔ (-(2 ^ (n - 1) : Int) ≤ v.toInt ∧ v.toInt < 2 ^ (n - 1)) := by
  have ht := truncS_toInt n h1 h2 v
  have hv := v.isLt
  unfold newS
  rw [if_neg (by omega), if_neg (by omega)]
  constructor
  · intro h
    split at h
    · rename_i heq
      have e : v.toInt = (v.toNat : Int).bmod (2 ^ n) := by rw [← ht, ← heq]
      rw [e]
      cases16 n <;> simp [Int.bmod] <;> omega
    · simp [Outcome.isOk] at h
  · intro h
    have : v = truncS n v := by
      apply BitVec.eq_of_toInt_eq; rw [ht]
      revert h
      rw [BitVec.toInt_eq_toNat_cond]
      cases16 n <;> simp [Int.bmod] <;> omega
    rw [if_pos this]; rfl

/-- A successfully created offset holds exactly the given value. -/
theorem new_get_unsigned (n : Nat) (v : W) (o : Offset n) (h : newU n v = .ok o) : o.get = v := by
  unfold newU at h
  split at h; · cases h
  split at h; · cases h
  split at h
  · cases h; rfl
  · cases h

theorem new_get_signed (n : Nat) (v : W) (o : Offset n) (h : newS n v = .ok o) : o.get = v := by
  unfold newS at h
  split at h; · cases h
  split at h; · cases h
  split at h
  · cases h; rfl
  · cases h

/-- A rejected value is reported with the error naming the width and signedness; never a panic. -/
theorem new_err_kind_unsigned (n : Nat) (h1 : 1 ≤ n) (h2 : n ≤ 16) (v : W) :
    newU n v = .ok ⟨v⟩ ∨ newU n v = .err (.cannotFitUnsigned n) := by
  unfold newU; rw [if_neg (by omega), if_neg (by omega)]; split <;> simp

theorem new_err_kind_signed (n : Nat) (h1 : 1 ≤ n) (h2 : n ≤ 16) (v : W) :
    newS n v = .ok ⟨v⟩ ∨ newS n v = .err (.cannotFitSigned n) := by
  unfold newS; rw [if_neg (by omega), if_neg (by omega)]; split <;> simp

/-- Truncating creation (unsigned) holds the zero-extension of the low N bits. -/
theorem trunc_unsigned (n : Nat) (h1 : 1 ≤ n) (h2 : n ≤ 16) (v : W) :
    ∃ o, newTruncU n v = .ok o ∧ o.get.toNat = v.toNat % 2 ^ n ∧
      o.get = (v.setWidth n).setWidth 16 := by
  refine ⟨⟨truncU n v⟩, ?_, truncU_toNat n h1 h2 v, ?_⟩
  · unfold newTruncU; rw [if_neg (by omega), if_neg (by omega)]
  · apply BitVec.eq_of_toNat_eq
    show (truncU n v).toNat = _
    rw [truncU_toNat n h1 h2 v]
    simp only [BitVec.toNat_setWidth]
    have := v.isLt
    cases16 n <;> omega

/-- Truncating creation (signed) holds the sign-extension of the low N bits. -/
theorem trunc_signed (n : Nat) (h1 : 1 ≤ n) (h2 : n ≤ 16) (v : W) :
    ∃ o, newTruncS n v = .ok o ∧ o.get.toInt = (v.toNat : Int).bmod (2 ^ n) ∧
      o.get = (v.setWidth n).signExtend 16 := by
  refine ⟨⟨truncS n v⟩, ?_, truncS_toInt n h1 h2 v, ?_⟩
  · unfold newTruncS; rw [if_neg (by omega), if_neg (by omega)]
  · apply BitVec.eq_of_toInt_eq
    show (truncS n v).toInt = _
    rw [truncS_toInt n h1 h2 v, BitVec.toInt_signExtend_of_le (by omega)]
    rw [BitVec.toInt_eq_toNat_bmod, BitVec.toNat_setWidth]
    have := v.isLt
    cases16 n <;> simp [Int.bmod] <;> omega

/-- N outside 1..=16 panics (documented for N > 16 in the doc comment; excluded by the property). -/
theorem new_panics_out_of_range (n : Nat) (h : n = 0 ∨ 16 < n) (v : W) :
    (newU n v).isPanic = true ∧ (newS n v).isPanic = true := by
  unfold newU newS
  rcases h with h | h
  · subst h; simp [Outcome.isPanic]
  · simp [h, Outcome.isPanic]

-- Non-vacuity: the doc-comment examples of ast.rs.
example : (newS 5 (BitVec.ofInt 16 (-5))).isOk = true ∧ (newS 5 15).isOk = true ∧ (newS 5 16).isOk = false := by decide
example : (newU 5 15).isOk = true ∧ (newU 5 16).isOk = true ∧ (newU 5 32).isOk = false := by decide
example : (truncS 5 16).toInt = -16 ∧ (truncU 5 32) = 0 := by decide

/-! ### offsets computed from labels (`replace_pc_offset`) -/

/-- the distance the assembler encodes for a label operand: from the incremented PC to the label, around the 16-bit
    address space (x7FFF → x8000 is +1, xFFFF → x0000 is +1) -/
def dist (addr pc : W) : Int := ((addr.toNat : Int) - pc.toNat).bmod 65536

theorem sub_toInt_dist (addr pc : W) : (addr - pc).toInt = dist addr pc := by
  unfold dist
  rw [BitVec.toInt_sub]
  have ha := addr.isLt; have hp := pc.isLt
  rw [BitVec.toInt_eq_toNat_cond, BitVec.toInt_eq_toNat_cond]
  simp [Int.bmod]; split <;> split <;> omega

/-- **label operands**: a label that is defined in the file (not external) is accepted as an N-bit PC-relative operand exactly
    when its distance from the incremented PC, taken around the address space, fits N bits two's complement — wherever the
    instruction and the label lie (in particular on opposite sides of x7FFF/x8000) — and the encoded operand is that distance. -/
theorem label_operand_iff (n : Nat) (h1 : 1 ≤ n) (h2 : n ≤ 16) (l : Label) (pc : W) (t : SymTab) (d : SymData)
    (hl : lookupKey t.labels (upperS l.name) = some d) (he : d.ext = false) :
    ((∃ v, replacePcOffset n (.label l) pc t = .ok v) ↔
      (-(2 ^ (n - 1) : Int) ≤ dist d.addr pc ∧ dist d.addr pc < 2 ^ (n - 1))) ∧
    (∀ v, replacePcOffset n (.label l) pc t = .ok v → v.toInt = dist d.addr pc) := by
  have hiff := new_signed_iff n h1 h2 (d.addr - pc)
  rw [sub_toInt_dist] at hiff
  unfold replacePcOffset
  simp only [hl, he, Bool.false_eq_true, if_false]
  cases hn : newS n (d.addr - pc) with
  | ok o =>
    have hok : (newS n (d.addr - pc)).isOk = true := by rw [hn]; rfl
    have hr := hiff.mp hok
    refine ⟨⟨fun _ => hr, fun _ => ⟨_, rfl⟩⟩, ?_⟩
    intro v hv
    cases hv
    rw [← sub_toInt_dist] at hr ⊢
    rw [BitVec.toInt_setWidth]
    revert hr
    generalize (d.addr - pc) = x
    intro hr
    have := x.isLt
    rw [BitVec.toInt_eq_toNat_cond] at hr ⊢
    cases16 n <;> simp [Int.bmod] at hr ⊢ <;> omega
  | err e =>
    have hno : ¬ (newS n (d.addr - pc)).isOk = true := by rw [hn]; simp [Outcome.isOk]
    refine ⟨⟨fun ⟨v, hv⟩ => (by cases hv), fun h => absurd (hiff.mpr h) hno⟩, fun v hv => (by cases hv)⟩
  | panic p =>
    have hno : ¬ (newS n (d.addr - pc)).isOk = true := by rw [hn]; simp [Outcome.isOk]
    refine ⟨⟨fun ⟨v, hv⟩ => (by cases hv), fun h => absurd (hiff.mpr h) hno⟩, fun v hv => (by cases hv)⟩

-- the boundary the 16-bit signed subtraction gets wrong: label at x8000, incremented PC x7FFF: distance +1
example : dist 0x8000 0x7FFF = 1 := by decide
example : dist 0x7FFF 0x8000 = -1 := by decide
example : dist 0x0000 0xFFFF = 1 := by decide

/-- Names of the theorems that constitute this property's proof obligations. -/
def obligations : List Lean.Name :=
  [``sub_toInt_dist, ``label_operand_iff, ``new_unsigned_iff, ``new_signed_iff, ``new_get_unsigned, ``new_get_signed,
   ``new_err_kind_unsigned, ``new_err_kind_signed, ``trunc_unsigned, ``trunc_signed,
   ``new_panics_out_of_range]

end Lc3V.C35
