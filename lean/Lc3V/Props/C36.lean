/-
  C36 — Printed statements reparse to the same statement.
  Proved for the model, for every statement `s` that satisfies `StmtOk` (what the parser can produce: every label and
  label operand is a word the lexer lexes as a label — `lexOne_label_ok` shows that every label token the lexer emits
  is such a word —, a branch has a non-empty condition code, `.blkw` is non-zero, and string literals hold only printable
  ASCII, tab, LF, CR, NUL and are below 65535 bytes): `parseAst (showStmt s)` returns exactly one statement with the same
  labels (by name), the same instruction or directive and the same operands (label operands by name; positions in
  the text necessarily differ).  The proof goes through the token level: the printed text is a sequence of atoms each
  of which is lexed as its token in front of a blank, a comma or the end (`lex_atoms`), and the parser reads the token
  values of every instruction and directive form back (`parseInstr_toks`, `parseDirective_toks`, `parseStmt_toks`).
  Not proved: that every statement `parseAst` returns satisfies `StmtOk` as one theorem (the pieces are: labels come from
  label tokens, `brCC` never yields 0, `.blkw 0` is rejected); the correspondence check parses generated programs, prints
  every statement and reparses it on implementation and model.
-/
import Lc3V.Lemmas.PrintLex
import Lc3V.Lemmas.PrintParse
import Lc3V.Props.C05
set_option linter.unusedSimpArgs false
namespace Lc3V.C36
open Lc3V

/-- `.stringz` operand: the printed literal (Rust `{:?}`) lexes back to the same string, for every string over printable
    ASCII, tab, LF, CR, NUL (size limit as for the original) -/
theorem string_literal_roundtrip (s rest : List Char) (h : ∀ c ∈ s, StrOk c) :
    showStrDebug s = '"' :: (escStr s ++ ['"']) ∧
    lexOne ('"' :: (escStr s ++ '"' :: rest)) =
      ⟨if blen s < 65535 then .ok (.string s) else .error .strLitTooBig, 2 + (escStr s).length⟩ :=
  ⟨rfl, lexOne_string s rest h⟩

/-- the property's premise is not vacuous: a literal with every kind of allowed character -/
example : ∀ c ∈ ['a', ' ', '~', '"', '\\', '\t', '\n', '\r', '\x00'], StrOk c := by
  intro c hc; simp only [List.mem_cons, List.mem_nil_iff, or_false] at hc
  rcases hc with rfl | rfl | rfl | rfl | rfl | rfl | rfl | rfl | rfl <;> (unfold StrOk; decide)

/-- an unsigned offset (`.blkw`, `.fill`): `#` + decimal, read back as the same field value -/
theorem unsigned_offset_roundtrip (n : Nat) (h1 : 1 ≤ n) (h2 : n ≤ 16) (v : BitVec n) (rest : List Char) (hr : EndsWord rest)
    (sp : Nat × Nat) :
    lexOne (showUOff v ++ rest) = ⟨.ok (.unsigned v.toNat), 1 + (natDigits v.toNat).length⟩ ∧
    convUnsigned n (.unsigned v.toNat) sp = some (.ok v) := by
  have hlt : v.toNat < 2 ^ n := v.isLt
  have hle : 2 ^ n ≤ 2 ^ 16 := Nat.pow_le_pow_right (by omega) h2
  have hv : v.toNat ≤ 65535 := by omega
  constructor
  · obtain ⟨d, ds, hds⟩ : ∃ d ds, natDigits v.toNat = d :: ds := by
      cases hnd : natDigits v.toNat with
      | nil => exact absurd hnd (natDigits_ne_nil _)
      | cons d ds => exact ⟨d, ds, rfl⟩
    have hdec := natDigits_isDec v.toNat
    have hall : allDigits 10 (natDigits v.toNat) := fun x hx => IsDec.digit10 (hdec x hx)
    unfold showUOff
    rw [hds] at hdec
    rw [hds, List.cons_append, List.cons_append,
      lexOne_hash d ds rest (IsDec.word (hdec d (by simp))) (fun x hx => IsDec.word (hdec x (by simp [hx]))) hr,
      ← hds, (C05.unsigned_dec _ (natDigits_ne_nil _) hall).2, valOf_natDigits, if_pos hv]
    rw [hds]; simp only [List.length_cons]; congr 1; omega
  · have := (C05.unsigned_field_unsigned_tok_ok n h1 h2 v.toNat hv sp).mpr hlt
    rw [this]
    simp

/-- a signed offset (imm5, offset6, PC offsets): `#` + signed decimal, read back as the same field value -/
theorem signed_offset_roundtrip (n : Nat) (h1 : 1 ≤ n) (h2 : n ≤ 16) (v : BitVec n) (rest : List Char) (hr : EndsWord rest)
    (sp : Nat × Nat) :
    ∃ t len, lexOne (showSOff v ++ rest) = ⟨.ok t, len⟩ ∧ convSigned n t sp = some (.ok v) := by
  have hpN : 2 ^ (n - 1) ≤ 2 ^ 15 := Nat.pow_le_pow_right (by omega) (by omega)
  have hpn : ((2 ^ (n - 1) : Nat) : Int) = (2:Int) ^ (n - 1) := by push_cast; rfl
  have hb : 2 * v.toInt < 2 ^ n := BitVec.two_mul_toInt_lt
  have hb' : -(2:Int) ^ n ≤ 2 * v.toInt := BitVec.le_two_mul_toInt
  have e2 : (2:Int) ^ n = 2 * 2 ^ (n - 1) := by
    have : n = (n - 1) + 1 := by omega
    rw [this, Int.pow_succ]; simp; omega
  have hhi : v.toInt < 2 ^ (n - 1) := by omega
  have hlo : -(2:Int) ^ (n - 1) ≤ v.toInt := by omega
  have hvv : BitVec.ofInt n v.toInt = v := BitVec.ofInt_toInt
  unfold showSOff
  by_cases hneg : v.toInt < 0
  · -- "#-digits" → signed token
    have hds := natDigits_isDec (-v.toInt).toNat
    have hall : allDigits 10 (natDigits (-v.toInt).toNat) := fun x hx => IsDec.digit10 (hds x hx)
    refine ⟨.signed v.toInt, 2 + (natDigits (-v.toInt).toNat).length, ?_, ?_⟩
    · rw [intDec_neg _ hneg, List.cons_append, List.cons_append,
        lexOne_hashminus _ rest (fun x hx => IsDec.word (hds x hx)) hr,
        (C05.signed_dec _ (natDigits_ne_nil _) hall).2, valOf_natDigits]
      have : (-v.toInt).toNat ≤ 32768 := by omega
      rw [if_pos this]
      have : -(((-v.toInt).toNat : Nat) : Int) = v.toInt := by omega
      rw [this]
    · have := (C05.signed_field_signed_tok_ok n h1 h2 v.toInt (by omega) (by omega) sp).mpr ⟨hlo, hhi⟩
      rw [this, hvv]
  · -- "#digits" → unsigned token
    have hnn : 0 ≤ v.toInt := by omega
    have hds := natDigits_isDec v.toInt.toNat
    have hall : allDigits 10 (natDigits v.toInt.toNat) := fun x hx => IsDec.digit10 (hds x hx)
    obtain ⟨d, ds, hdd⟩ : ∃ d ds, natDigits v.toInt.toNat = d :: ds := by
      cases hnd : natDigits v.toInt.toNat with
      | nil => exact absurd hnd (natDigits_ne_nil _)
      | cons d ds => exact ⟨d, ds, rfl⟩
    refine ⟨.unsigned v.toInt.toNat, 2 + ds.length, ?_, ?_⟩
    · rw [intDec_nonneg _ hnn]
      rw [hdd] at hds
      rw [hdd, List.cons_append, List.cons_append,
        lexOne_hash d ds rest (IsDec.word (hds d (by simp))) (fun x hx => IsDec.word (hds x (by simp [hx]))) hr,
        ← hdd, (C05.unsigned_dec _ (natDigits_ne_nil _) hall).2, valOf_natDigits]
      have : v.toInt.toNat ≤ 65535 := by omega
      rw [if_pos this]
    · have hlt : v.toInt.toNat < 2 ^ (n - 1) := by omega
      have := (C05.signed_field_unsigned_tok_ok n h1 h2 v.toInt.toNat (by omega) sp).mpr hlt
      rw [this]
      congr 2
      have : BitVec.ofNat n v.toInt.toNat = BitVec.ofInt n v.toInt := by
        apply BitVec.eq_of_toNat_eq
        simp only [BitVec.toNat_ofNat, BitVec.toNat_ofInt]
        have hc : ((2 ^ n : Nat) : Int) = (2:Int) ^ n := by push_cast; rfl
        have hN : (2:Nat) ^ n = 2 * 2 ^ (n - 1) := by
          have : n = (n - 1) + 1 := by omega
          rw [this, Nat.pow_succ]; simp; omega
        rw [Nat.mod_eq_of_lt (by omega), Int.emod_eq_of_lt hnn (by rw [hc]; omega)]
      rw [this, hvv]

/-- every mnemonic is read back as its keyword -/
theorem keyword_roundtrip : ∀ k ∈ Kw.all, Ident.ofText k.name.toList = .kw k := by decide +kernel

/-- every register is printed as `R<n>` and read back as register `n` -/
theorem reg_roundtrip : ∀ n ∈ List.range 8,
    (match (lexOne (showReg (BitVec.ofNat 3 n))).res with | .ok (.reg m) => m == n | _ => false) = true := by decide +kernel

/-- the eight branch mnemonics (`NOP` for an empty condition, else `BR` + lower-case flags) are read back as a keyword with
    the same condition code -/
theorem br_mnemonic_roundtrip : ∀ n ∈ List.range 8,
    (match Ident.ofText ((showInstr (.br (BitVec.ofNat 3 n) (.off 0))).takeWhile (· != ' ')) with
     | .kw k => if n = 0 then k == .NOP else brCC k == some (BitVec.ofNat 3 n)
     | _ => false) = true := by decide +kernel

/-- **print, then parse**: the same statement comes back -/
theorem print_then_parse (s : Stmt) (h : StmtOk s) :
    ∃ s', parseAst (showStmt s) = .ok [s'] ∧ s'.labels.map (·.name) = s.labels.map (·.name) ∧ s'.nucleus.erase = s.nucleus.erase :=
  parse_print s h

/-- the parser's branch condition codes are never empty -/
theorem brCC_ne_zero (k : Kw) (cc : BitVec 3) (h : brCC k = some cc) : cc ≠ 0 := by
  cases k <;> simp [brCC] at h <;> (subst h; decide)

/-- the premise is satisfiable: a statement with two labels, a label operand and an immediate -/
example : StmtOk ⟨[⟨['L', 'o', 'o', 'p'], 0⟩, ⟨['x', '_', '1'], 5⟩], .instr (.br 5 (.label ⟨['e', 'n', 'd', 'e'], 9⟩)), (0, 0)⟩ := by
  refine ⟨?_, ?_, ?_⟩
  · intro l hl
    simp only [List.mem_cons, List.mem_nil_iff, or_false] at hl
    rcases hl with rfl | rfl <;> decide
  · decide
  · show labelOk ['e', 'n', 'd', 'e'] = true
    decide

def obligations : List Lean.Name :=
  [``string_literal_roundtrip, ``unsigned_offset_roundtrip, ``signed_offset_roundtrip,
   ``keyword_roundtrip, ``reg_roundtrip, ``br_mnemonic_roundtrip,
   ``print_then_parse, ``brCC_ne_zero, ``Lc3V.parse_print, ``Lc3V.lex_atoms, ``Lc3V.parseInstr_toks, ``Lc3V.parseDirective_toks,
   ``Lc3V.parseStmt_toks, ``Lc3V.lexOne_label_ok, ``Lc3V.showStmt_atoms, ``Lc3V.stmtAtoms_ok]

end Lc3V.C36
