/- Main.lean — line-protocol driver `lc3model`: one op per input line, one result line per op. -/
import Lc3V.Driver.Util
import Lc3V.Driver.Offset
import Lc3V.Driver.Word
import Lc3V.Driver.Instr
import Lc3V.Driver.Sim
import Lc3V.Driver.Timer
import Lc3V.Driver.Source
import Lc3V.Driver.Lex
import Lc3V.Driver.Parse
import Lc3V.Driver.Asm
open Lc3V Lc3V.Driver

structure DState where
  sim : Option SimCtx := none
  tim : Option Timer := none
  src : Option SourceInfo := none
  objs : Slots := []

def step (st : DState) (line : String) : DState × String :=
  let l := line.trimAscii.toString
  match l.splitOn " " with
  | "case" :: _ => (st, l)
  | "sim" :: args => let (s', out) := cmdSim st.sim args; ({ st with sim := s' }, out)
  | "tim" :: args => let (t', out) := cmdTim st.tim args; ({ st with tim := t' }, out)
  | "src" :: args => let (t', out) := cmdSrc st.src args; ({ st with src := t' }, out)
  | "lex" :: args => (st, cmdLex args)
  | "parse" :: args => (st, cmdParse args)
  | "print" :: args => (st, cmdPrint args)
  | "disasm" :: args => (st, cmdDisasm args)
  | ["oload", slot] =>
    (match st.sim, slotGet st.objs slot with
     | some c, some o =>
       let (r, s') := c.sim.loadObj (o.blocks.map (fun b => (BitVec.ofNat 16 b.1, b.2))) (!o.externalSymbols.isEmpty)
       ({ st with sim := some { c with sim := s' } }, resStr r)
     | _, _ => (st, "noslot"))
  | "asm" :: _ | "link" :: _ | "odump" :: _ | "oq" :: _ | "bser" :: _ | "bde" :: _ | "tser" :: _ | "tde" :: _ =>
    let (o', out) := cmdObj st.objs (l.splitOn " "); ({ st with objs := o' }, out)
  | "off" :: args  => (st, cmdOff false args)
  | "offt" :: args => (st, cmdOff true args)
  | "wop" :: args => (st, cmdWop args)
  | "dec" :: args => (st, cmdDec args)
  | "enc" :: args => (st, cmdEnc args)
  | _ => (st, "bad-op")

partial def loop (hin : IO.FS.Stream) (hout : IO.FS.Stream) (st : DState) : IO Unit := do
  let line ← hin.getLine
  if line.isEmpty then return ()
  let (st', out) := step st line
  hout.putStrLn out
  loop hin hout st'

def main : IO Unit := do
  let hin ← IO.getStdin
  let hout ← IO.getStdout
  loop hin hout {}
