#!/bin/bash
# usage: confirm_mutant.sh <worktree> <seed-id> <property>
# Confirms in the scratch worktree: patch compiles, the pinned tests pass with it, demo fails with it and passes without.
wt="$1"; id="$2"; prop="$3"
cd "$wt" || exit 2
export CARGO_NET_OFFLINE=true
git checkout -q -- src 2>/dev/null
git apply OUT/patch.diff || { echo "$id: patch does not apply"; exit 1; }
t1=$(cargo test --offline --lib 2>&1 | grep -E "^test result" | head -1)
mkdir -p tests; cp OUT/demo.rs tests/demo.rs
d1=$(cargo test --offline --test demo 2>&1 | grep -E "^test result" | head -1)
git apply -R OUT/patch.diff
d0=$(cargo test --offline --test demo 2>&1 | grep -E "^test result" | head -1)
rm -f tests/demo.rs; rmdir tests 2>/dev/null
echo "$id: suite-with-patch: $t1 | demo-with-patch: $d1 | demo-without: $d0"
case "$t1" in *"35 passed; 0 failed"*) ;; *) echo "$id: REJECT (suite)"; exit 1;; esac
case "$d1" in *"FAILED"*|*"failed"*) ;; *) echo "$id: REJECT (demo does not fail with patch)"; exit 1;; esac
case "$d0" in *"ok."*) ;; *) echo "$id: REJECT (demo does not pass without patch)"; exit 1;; esac
mkdir -p /verif/seeded/$id
cp OUT/patch.diff OUT/demo.rs /verif/seeded/$id/
python3 - "$id" "$prop" "$t1" "$d1" "$d0" <<'PY'
import json,sys
id,prop,t1,d1,d0=sys.argv[1:6]
try: m=json.load(open('OUT/meta.json'))
except Exception: m={}
m['property']=prop
m['confirmed']={"suite_with_patch":t1,"demo_with_patch":d1,"demo_without_patch":d0,"how":"tools/confirm_mutant.sh in a scratch worktree of /repo HEAD"}
json.dump(m,open(f'/verif/seeded/{id}/meta.json','w'),indent=1)
PY
echo "$id: KEPT"
