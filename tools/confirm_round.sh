#!/bin/bash
# usage: confirm_round.sh <worktree-prefix> <suffix> [log]  — confirms every /tmp/<prefix>_Cxx in parallel (6 at a time)
pre="$1"; suf="$2"; log="${3:-/tmp/confirm_round.log}"
cd /verif
ls -d /tmp/${pre}_C* | sed "s#/tmp/${pre}_##" | xargs -P 6 -I{} sh -c "tools/confirm_mutant.sh /tmp/${pre}_{} {}-${suf} {} 2>&1 | tail -1" > "$log" 2>&1
echo DONE >> "$log"
