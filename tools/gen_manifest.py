#!/usr/bin/env python3
"""Regenerates /verif/MANIFEST.json from tools/props.py (claimed properties) and properties.jsonl."""
import json, sys
from pathlib import Path
ROOT = Path(__file__).resolve().parent.parent
sys.path.insert(0, str(ROOT / "tools"))
from props import PROPS, NOT_CLAIMED, HOOK_COMMITS

props = [json.loads(l) for l in open(ROOT / "properties.jsonl")]
m = {
    "version": 1,
    "setup_cmd": "cd /verif && ./tools/setup.sh",
    "hooks": {
        "guard": "cargo feature verif-hooks",
        "enable": "harness/Cargo.toml: lc3-ensemble = { path = \"/repo\", features = [\"verif-hooks\"] } (cargo rebuilds /repo's current tree on every check)",
        "baseline_off_cmd": "cd /repo && cargo test --workspace --no-fail-fast --offline",
        "source_commits": HOOK_COMMITS,
        "add_only": True,
    },
    "engines": [{
        "name": "lean4-proof+correspondence", "path": "/verif/check",
        "serves_properties": sorted(PROPS),
        "kind_free_text": "Lean 4 theorems (lean/Lc3V/Props) about a hand-written executable model (lean/Lc3V/Model), tied to /repo on every run by a differential correspondence harness (harness/, Rust, in-process calls into /repo) driving the compiled model (lc3model) on the same cases, plus a translator that regenerates the OS image module from /repo",
    }],
    "checks": [],
    "notes": "See DESIGN.md. ./check <id>: (1) regenerate Gen/*.lean from /repo, (2) lake build Lc3V.Props.<id> + grep for sorry/axiom/native_decide/bv_decide + per-theorem axiom audit (thorough: leanchecker), (3) cargo-build the harness against /repo's working tree, generate cases from VERIF_SEED, run implementation and model, compare line by line, (4) property oracle on the implementation for replays. known_findings.json lists recorded defects.",
    "not_applicable": [],
}
for p in props:
    pid = p["id"]
    if pid in PROPS:
        c = PROPS[pid]
        m["checks"].append({
            "property_id": pid,
            "quick_cmd": f"./check {pid} --tier quick",
            "thorough_cmd": f"./check {pid} --tier thorough",
            "evidence_file": f"/verif/evidence/{pid}.json",
            "replay_cmd_template": f"./check {pid} --replay {{path}}",
            "engine": "lean4-proof+correspondence",
            "level_claimed": {"category": "proof", "text": c["level_text"], "design_ref": f"DESIGN.md §6 {pid}, §10"},
            "level_note": c["level_note"],
            "technique": c.get("technique", "Lean 4 machine-checked proof over an executable model + differential correspondence with the implementation"),
        })
    else:
        m["not_applicable"].append({"property_id": pid, "reason": NOT_CLAIMED.get(pid, "not claimed yet: the model and theorems for this property are still under construction (the technique applies; plan in DESIGN.md §6)")})
json.dump(m, open(ROOT / "MANIFEST.json", "w"), indent=1)
print("claimed:", len(m["checks"]), "not claimed:", len(m["not_applicable"]))
