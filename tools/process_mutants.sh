#!/bin/bash
# usage: process_mutants.sh <worktree-prefix e.g. mut3> <suffix e.g. m3> <prop> [<prop> ...]
# For each property: confirm the seeded change in its scratch worktree, store it under /verif/seeded/<prop>-<suffix>/,
# run the property's quick check against /repo with the patch applied, undo the patch, remove the worktree.
pre="$1"; suf="$2"; shift 2
cd /verif
for c in "$@"; do
  wt=/tmp/${pre}_$c
  out=$(tools/confirm_mutant.sh $wt $c-$suf $c 2>&1 | tail -1)
  case "$out" in
    *KEPT*) res=$(tools/try_mutant.sh /verif/seeded/$c-$suf/patch.diff $c 2>&1 | grep -c "^VIOLATION")
            if [ "$res" -gt 0 ]; then echo "$c-$suf: CAUGHT ($res violation lines)"; else echo "$c-$suf: MISSED"; fi;;
    *) echo "$c-$suf: $out";;
  esac
  git -C /repo worktree remove --force $wt 2>/dev/null
done
git -C /repo worktree prune
git -C /repo status --short | head -3
rm -f replays/*-1-corr.json replays/*-1-oracle*.json
