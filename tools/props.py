"""Per-property configuration of ./check and source of MANIFEST.json (tools/gen_manifest.py).
`functional`: the property fixes the compared observable uniquely and the model is proved to satisfy it, so
a model/implementation disagreement on a generated input *is* a failing input of the property."""

HOOK_COMMITS = ["6d6c175"]
BASE_NOTE = ("Trusted: Lean 4.33.0 kernel (thorough: also leanchecker), axioms propext/Classical.choice/Quot.sound only "
             "(audited per theorem on every run; no sorry, native_decide, bv_decide or own axioms), the hand-written model's "
             "fidelity as far as the correspondence run exercises it, the Rust harness + compiled Lean driver + comparer. ")

NOT_CLAIMED = {}

PROPS = {
    "C35": {
        "sub": "c35", "functional": True,
        "status": "full: new_*_iff, new_get_*, trunc_*, new_err_kind_* for all 1<=N<=16 and all 16-bit values",
        "assumptions": ["N in 1..=16 (N=0 or N>16 panics, as the doc comment says; proved as new_panics_out_of_range)"],
        "level_text": "Full-strength theorems for every N in 1..=16 and every 16-bit value (Props/C35.lean: acceptance iff representable, stored value, sign/zero extension of the low N bits, error kind), proved arithmetically (no enumeration of values). The model's Offset functions are compared with Offset::<i16|u16, N>::new/new_trunc/get on every one of the 2*16*65536*2 inputs on every run, so the theorem transfers to the code completely, modulo the harness.",
        "level_note": BASE_NOTE + "Correspondence is exhaustive in both tiers (4,194,304 evaluations).",
    },
}
