"""Per-property configuration of ./check and source of MANIFEST.json (tools/gen_manifest.py).
`functional`: the property fixes the compared observable uniquely and the model is proved to satisfy it, so
a model/implementation disagreement on a generated input *is* a failing input of the property."""

HOOK_COMMITS = ["6d6c175"]
BASE_NOTE = ("Trusted: Lean 4.33.0 kernel (thorough: also leanchecker), axioms propext/Classical.choice/Quot.sound only "
             "(audited per theorem on every run; no sorry, native_decide, bv_decide or own axioms), the hand-written model's "
             "fidelity as far as the correspondence run exercises it, the Rust harness + compiled Lean driver + comparer. ")

NOT_CLAIMED = {}

PROPS = {
    "C35": {
        "sub": "c35", "functional": True,
        "status": "full: new_*_iff, new_get_*, trunc_*, new_err_kind_* for all 1<=N<=16 and all 16-bit values",
        "assumptions": ["N in 1..=16 (N=0 or N>16 panics, as the doc comment says; proved as new_panics_out_of_range)"],
        "level_text": "Full-strength theorems for every N in 1..=16 and every 16-bit value (Props/C35.lean: acceptance iff representable, stored value, sign/zero extension of the low N bits, error kind), proved arithmetically (no enumeration of values). The model's Offset functions are compared with Offset::<i16|u16, N>::new/new_trunc/get on every one of the 2*16*65536*2 inputs on every run, so the theorem transfers to the code completely, modulo the harness.",
        "level_note": BASE_NOTE + "Correspondence is exhaustive in both tiers (4,194,304 evaluations).",
    },
    "C15": {
        "sub": "c15", "functional": True,
        "status": "full: not/and/add/sub_sound for all operand pairs and all re-choices of uninitialised bits; full_init",
        "assumptions": ["operands are built through the verif-hooks accessors (raw data/mask pairs)"],
        "level_text": "Full-strength theorems (Props/C15.lean): for NOT, AND, ADD, SUB and every pair of words a,b and every a',b' that differ from them only in uninitialised bits, the result mask is identical and every bit reported initialised has the same value (bit-extensional proofs, no enumeration); operations on fully initialised words give fully initialised wrapping results. Correspondence: structured grid + random operand pairs through the real Word operators, result (data, mask) compared with the model; the soundness statement itself is also evaluated on the implementation with 16 re-randomisations per pair.",
        "level_note": BASE_NOTE + "Correspondence is sampled (grid + random), not exhaustive: 2^64 operand pairs.",
    },
    "C06": {
        "sub": "c06", "functional": True,
        "status": "full: decode_encode, encode_decode, decode_ok_iff_canonical, decode_illegal_iff, decode_invalid_format_iff, decode_ok_iff_in_range",
        "assumptions": ["representable instruction = register numbers 0-7, condition code 0-7, offsets within their field (the invariant Offset::new/new_trunc enforce)"],
        "level_text": "Full-strength theorems (Props/C06.lean) for all 65536 words and all representable instructions, lifted from complete kernel-evaluated tables (decide +kernel over every word / every field combination; no native_decide, no bv_decide): decode succeeds iff the word is canonical per the ISA format table (specValid, written independently), error kinds, decode-then-encode and encode-then-decode identities. The same two exhaustive enumerations run on SimInstr::decode/encode on every check and are compared line by line with the model, so the theorems transfer to the code completely (modulo the harness). Defect F3 (JMP with bit 11 set decoded as JMP) was repaired in /repo (fix: commit 3ea9aa0).",
        "level_note": BASE_NOTE + "Correspondence is exhaustive in both tiers (65536 words + 49,481 instructions).",
    },
}
