"""Per-property configuration of ./check and source of MANIFEST.json (tools/gen_manifest.py).
`functional`: the property fixes the compared observable uniquely and the model is proved to satisfy it, so
a model/implementation disagreement on a generated input *is* a failing input of the property."""

HOOK_COMMITS = ["6d6c175"]
BASE_NOTE = ("Trusted: Lean 4.33.0 kernel (thorough: also leanchecker), axioms propext/Classical.choice/Quot.sound only "
             "(audited per theorem on every run; no sorry, native_decide, bv_decide or own axioms), the hand-written model's "
             "fidelity as far as the correspondence run exercises it, the Rust harness + compiled Lean driver + comparer. ")

NOT_CLAIMED = {}

PROPS = {
    "C35": {
        "sub": "c35", "functional": True,
        "status": "full: new_*_iff, new_get_*, trunc_*, new_err_kind_* for all 1<=N<=16 and all 16-bit values",
        "assumptions": ["N in 1..=16 (N=0 or N>16 panics, as the doc comment says; proved as new_panics_out_of_range)"],
        "level_text": "Full-strength theorems for every N in 1..=16 and every 16-bit value (Props/C35.lean: acceptance iff representable, stored value, sign/zero extension of the low N bits, error kind), proved arithmetically (no enumeration of values). The model's Offset functions are compared with Offset::<i16|u16, N>::new/new_trunc/get on every one of the 2*16*65536*2 inputs on every run, so the theorem transfers to the code completely, modulo the harness.",
        "level_note": BASE_NOTE + "Correspondence is exhaustive in both tiers (4,194,304 evaluations).",
    },
    "C15": {
        "sub": "c15", "functional": True,
        "status": "full: not/and/add/sub_sound for all operand pairs and all re-choices of uninitialised bits; full_init",
        "assumptions": ["operands are built through the verif-hooks accessors (raw data/mask pairs)"],
        "level_text": "Full-strength theorems (Props/C15.lean): for NOT, AND, ADD, SUB and every pair of words a,b and every a',b' that differ from them only in uninitialised bits, the result mask is identical and every bit reported initialised has the same value (bit-extensional proofs, no enumeration); operations on fully initialised words give fully initialised wrapping results. Correspondence: structured grid + random operand pairs through the real Word operators, result (data, mask) compared with the model; the soundness statement itself is also evaluated on the implementation with 16 re-randomisations per pair.",
        "level_note": BASE_NOTE + "Correspondence is sampled (grid + random), not exhaustive: 2^64 operand pairs.",
    },
    "C06": {
        "sub": "c06", "functional": True,
        "status": "full: decode_encode, encode_decode, decode_ok_iff_canonical, decode_illegal_iff, decode_invalid_format_iff, decode_ok_iff_in_range",
        "assumptions": ["representable instruction = register numbers 0-7, condition code 0-7, offsets within their field (the invariant Offset::new/new_trunc enforce)"],
        "level_text": "Full-strength theorems (Props/C06.lean) for all 65536 words and all representable instructions, lifted from complete kernel-evaluated tables (decide +kernel over every word / every field combination; no native_decide, no bv_decide): decode succeeds iff the word is canonical per the ISA format table (specValid, written independently), error kinds, decode-then-encode and encode-then-decode identities. The same two exhaustive enumerations run on SimInstr::decode/encode on every check and are compared line by line with the model, so the theorems transfer to the code completely (modulo the harness). Defect F3 (JMP with bit 11 set decoded as JMP) was repaired in /repo (fix: commit 3ea9aa0).",
        "level_note": BASE_NOTE + "Correspondence is exhaustive in both tiers (65536 words + 49,481 instructions).",
    },
    "C08": {
        "sub": "c08", "functional": True,
        "status": "partial: ISA-card theorems for the step structure (interrupt gate / fetch / execute), all operate, control and load/store instructions, access-violation and plain-memory access lemmas, RTI in user mode; trap/interrupt entry, RTI in supervisor mode and exception vectoring are covered by the correspondence run and by C10/C12 theorems as they are added",
        "assumptions": ["non-strict mode (strict mode is C14)", "devices behave as Model/Dev.lean says (compared with the real devices in every run)"],
        "level_text": "Machine-checked ISA-card theorems about the model's step for every machine state (Props/C08.lean): the step is poll -> gated interrupt entry | external interrupt error | fetch-decode-execute; each operate/control/load/store instruction's execute stage equals the ISA effect (registers, CC, PC, memory via readMem/writeMem at the ISA effective address, sign-extended offsets, wrapping arithmetic), user-privilege accesses outside x3000-xFDFF are access violations that change nothing, permitted plain-memory accesses read/write exactly that cell. The model is tied to /repo on every run: random machine states x 20-60 steps, every step's complete observable state (registers with init masks, PC, PSR, saved SP, frames, counters, changed memory cells, keyboard/display, observer, memory hash) compared with the real Simulator. Partial: entry/RTI/exception theorems are still being added; the statement proved so far is listed in evidence.coverage.statement_status.",
        "level_note": BASE_NOTE + "The ISA reading (TRAP pushes PSR/PC and does not write R7, JSRR reads the base before linking, PSR MMIO mask) is part of the specification (DESIGN section 3). Correspondence is sampled.",
    },
    "C09": {
        "sub": "c09", "functional": True,
        "status": "partial: access-level confinement (every unprivileged access is in x3000-xFDFF or rejected before any effect), user-mode context, fetch violation, RTI, store frame; the closure over all instructions of a step is by C08's per-instruction reduction to readMem/writeMem with defaultCtx, and over runs by the correspondence oracle",
        "assumptions": ["privilege checks enabled (ignore_privilege = false)"],
        "level_text": "Theorems for every state (Props/C09.lean): a user-mode machine with checks on uses an unprivileged access context; an unprivileged access outside x3000-xFDFF returns AccessViolation having changed neither memory, registers, devices, PC, PSR nor observer; an unprivileged access that is performed lies in user space; a user-mode fetch outside user space fails before execution; RTI in user mode is a privilege violation with no state change; a user store either faults or writes exactly one user-space cell. Correspondence + oracle: adversarial user-mode states aimed at every boundary address with every addressing mode, real and virtual traps; the implementation is checked step by step against the model and against the confinement oracle (cells changed by a user-mode step are user-space cells, or the two supervisor-stack words of an entry).",
        "level_note": BASE_NOTE + "Partial: the whole-step closure is assembled from per-instruction theorems, not yet one theorem over stepIn.",
    },
    "C14": {
        "sub": "c14", "functional": True,
        "status": "partial: conservativity, error-kind and no-error-when-initialised proved for the three primitives that consult the strict flag (get_if_init, set_if_init, set_pc peek) and read_mem's independence of it; whole-step strict_conservative is checked by the paired-run oracle and the model comparison",
        "assumptions": ["F17/F18 repaired in /repo (fix: commit 5917735): the strict next-PC check is a pure memory peek"],
        "level_text": "Theorems (Props/C14.lean, all inputs): get_if_init/set_if_init that succeed under strict return exactly the non-strict result; when they fail the error is the strict error passed in, and all nine such errors are classified strict; fully initialised words never fail; set_pc under strict either makes exactly the non-strict state change or fails with StrictJmpAddrUninit/StrictPCNextUninit, and cannot fail when the address word and target cell are initialised; read_mem ignores the strict flag; operate results on initialised words stay initialised (with C15). Correspondence + oracle: identical partially-initialised machine states run with strict off and on (and fully initialised machines), each step compared with the model and pairwise on the implementation: the first difference must be a strict error on the strict side, none on initialised machines.",
        "level_note": BASE_NOTE + "Partial: whole-step conservativity is not yet a single theorem over stepIn.",
    },
    "C16": {
        "sub": "c16", "functional": True,
        "status": "full for the enumerated panic sites (DevInv invariant for devices[dev_id], in_alloca index, register slice width, prefetch_pc wrapping); partial by nature for allocation/stack exhaustion and custom ExternalDevice implementations",
        "assumptions": ["frame_no < 2^64 - 1 (u64 increment)", "custom ExternalDevice implementations do not panic themselves", "F4 repaired in /repo (fix: commit a10dcd4)"],
        "level_text": "The model is total; every Rust operation in the step path that can panic is discharged by a theorem (Props/C16.lean): DevInv (every port's device id indexes devices) holds for DeviceHandler::new and is preserved by set_port, set_keyboard/display, add_device, remove_device, io_read, io_write, io_reset and poll_interrupt, so devices[dev_id] is always in bounds; alloca[first_post-1] is in bounds; every register field sliced by decode is < 8 so Reg::try_from(..).unwrap() cannot fail; prefetch_pc is wrapping. Correspondence: random machine states with arbitrary PC incl. xFFFF/x0000, all 16 flag combinations, partially initialised words, devices, MMIO-mapped internal registers; steps + run_with_limit + prefetch_pc under catch_unwind, every result compared with the (panic-free) model.",
        "level_note": BASE_NOTE + "Runtime behaviour no model exhibits (allocation failure, stack overflow) is out of reach; panics inside rand/logos are not modelled.",
    },
    "C27": {
        "sub": "c27", "functional": True,
        "status": "partial: push/pop depth arithmetic with saturation, frames.size = depth invariant under push/pop, pushed frame fields and argument lists per signature, built-in trap signatures, JSR/JSRR push, JMP R7 pops, operate instructions leave the stack alone; trap/interrupt/RTI events use the same push/pop and are compared with the implementation",
        "assumptions": [],
        "level_text": "Theorems (Props/C27.lean, all states): push_frame adds exactly one to the depth and appends exactly one frame holding caller, callee, kind, and the frame pointer/arguments prescribed by the callee's signature (calling convention: fp = R6-4, args M[fp+4..]; pass-by-register: those registers; none: empty), traps below x100 use the built-in table; pop_frame subtracts one saturating at zero and drops the last frame; frames.size = depth is preserved by both; JSR/JSRR push a subroutine frame, JMP R7 pops, other JMPs and operate instructions do not touch the stack. Correspondence: call-heavy programs with unbalanced returns, interrupts and registered signatures; depth and complete frame list compared after every step.",
        "level_note": BASE_NOTE + "Partial: the fold-over-events statement for whole runs is assembled from the per-instruction theorems; not one theorem over runs yet.",
    },
    "C28": {
        "sub": "c28", "functional": True,
        "status": "full at the access level (read/write marking, untracked/rejected accesses, clearing); the identification of a step's accesses with the ISA's accesses is C08's per-instruction reduction to readMem/writeMem",
        "assumptions": ["non-strict mode"],
        "level_text": "Theorems (Props/C28.lean, all states): a tracked permitted read marks READ at exactly that address; a tracked non-strict write that takes effect marks WRITTEN and marks MODIFIED exactly when the stored Word (value or mask) changes, no other address is touched; untracked accesses (host contexts), accesses rejected by the privilege check and writes no device accepts leave the observer unchanged; step_in and run_while start from the empty observer. With C08's theorems (each instruction's accesses are readMem/writeMem at the ISA addresses with the tracking default context) this gives the property per step. Correspondence: after every step/run the implementation's observer (get_mem_accesses for all 65536 addresses, or take_mem_accesses) is compared with the model's, with tracked and untracked host accesses interleaved.",
        "level_note": BASE_NOTE,
    },
    "C34": {
        "sub": "c34", "functional": True,
        "status": "full for every sample stream: gap between consecutive interrupts = the sample drawn (so within [lo,hi], exactly n for an exact count, n = 0 included after fix F20), first interrupt within max+1 polls, recurrence, disabled timers silent, determinism",
        "assumptions": ["StdRng's random_range returns values inside the range (the samples are taken from the real generator and passed to the model)", "F20 repaired in /repo (fix: commit 89a5e6b): a sampled interval of 0 fires on the reload poll"],
        "level_text": "Theorems over every timer state and every sample stream (Props/C34.lean): with the countdown at 0 and next sample n the timer is silent for exactly n polls and fires on the next (gap_is_sample), iterated over any number of rounds (gaps_are_samples), hence every gap lies in [lo,hi] when the samples do; first interrupt after enable/reset within max+1 polls; a disabled timer never fires and its countdown does not move; the firing sequence is a function of the samples. Correspondence: standalone TimerDevice with random exact counts/ranges (incl. 0, exclusive bounds, huge), seeds, enable/disable, reset_remaining, io_reset, set_range/set_exact mid-run; remaining time and fire/none compared after every one of ~600k ops; timers inside the simulator are exercised by C10/C31.",
        "level_note": BASE_NOTE + "StdRng is not modelled: the model consumes the samples the implementation drew.",
    },
    "C32": {
        "sub": "c32", "functional": True,
        "status": "full: add_ok_iff, id = devices ever added (never reused), remove frees exactly the device's ports (fixed ids keep theirs), internal-register precedence, device dispatch by port table, unowned writes leave memory unchanged, mmap_ok_iff, DevInv for every op (C16)",
        "assumptions": ["recording devices behave as harness/src/simx.rs Recorder (mirrored by Device.recorder)"],
        "level_text": "Theorems for every handler state and op (Props/C32.lean + C16.lean): add_device succeeds iff fewer than 2^16 devices were ever added and every requested port is an I/O address currently unowned, returns the count of devices ever added (ids strictly increase; removal never shrinks the list); remove_device of a non-fixed id frees exactly its ports, ids 0/1/2 keep theirs; a read/write at an I/O address goes to the mapped internal register without consulting devices, else to the device named by the port table, else nowhere (unowned port: read unanswered, write refused, memory unchanged); mmap_internal succeeds iff the address is in the I/O page and unmapped. Correspondence: all op sequences up to length 3 (thorough 4) over an 18-op alphabet and random sequences up to length 40, probe reads/writes, every recording device's call log and the register map compared.",
        "level_note": BASE_NOTE,
    },
    "C29": {
        "sub": "c29", "functional": True,
        "status": "full: copy_obj_block pointwise for any start/data (wrapping), load = fold over blocks with registers/PC/PSR untouched and externals rejected, new simulator memory/registers characterised against the regenerated OS image",
        "assumptions": ["block data length <= 2^16 (both object formats store a u16 length)"],
        "level_text": "Theorems (Props/C29.lean): for every memory, start address and block of at most 2^16 words, copy_obj_block sets start+i (mod 2^16) to the initialised word, or clears the mask of a reserved cell keeping its data, and leaves every other cell unchanged (proved by induction, wrap-around included); load_obj_file is the fold of that over the blocks, leaves registers, PC, PSR, saved SP and counters alone and rejects files with externals; Simulator::new holds the OS image (Gen/OsImage.lean, regenerated from /repo on every run) at its addresses, initialised zeros in the I/O page and uninitialised filler values elsewhere. Correspondence: generated images assembled by the real assembler (blocks at x0000, ending at xFE00, .blkw gaps), loaded repeatedly and after execution into simulators with different fills; full-memory hash incl. masks compared after each load.",
        "level_note": BASE_NOTE + "The OS image module is produced by the translator tools/gen_os_image.py from /repo's own assembler output.",
    },
    "C30": {
        "sub": "c30", "functional": True,
        "status": "full for the model (reset = new with current flags + kept configuration + io_reset of each device); MCR pointer identity is an implementation observable checked by the harness only through behaviour",
        "assumptions": ["deterministic initialisation strategy (Known / Seeded)"],
        "level_text": "Theorems (Props/C30.lean): after reset, memory, registers, PC, PSR, saved SP, frame depth and list, subroutine definitions, instruction count, pause status, prefetch flag, allocation list and observer equal those of a new simulator with the current flags; flags, breakpoints, MCR value, internal-register mappings and the port table are kept, the device count is unchanged and each device is io_reset of itself (keyboard cleared + interrupts off, display cleared, timer redraws), and the port-table invariant survives. Correspondence: random histories of runs, steps, flag changes, breakpoint edits, device additions/removals, MMIO mappings and writes followed by reset; digest, full-memory hash, register map, device dispatch and breakpoint behaviour compared with the model, and the implementation's post-reset state compared with Simulator::new(current flags).",
        "level_note": BASE_NOTE,
    },
    "C31": {
        "sub": "c31", "functional": False,
        "status": "partial by nature: known_init and the explicit dependency list are theorems; absence of hidden runtime inputs is a paired-run test",
        "assumptions": ["the Unseeded strategy is excluded (as in the property)"],
        "level_text": "Theorems (Props/C31.lean): with Known{v} every register and every memory word outside the OS image and the I/O page is (v, uninitialised), the I/O page is initialised zero; the model's history is a function of exactly flags, filler stream, OS image, MCR and the set-up (program, device state incl. keyboard bytes, timer sample streams, scripted interrupts, lock flags) - no model function has any other argument. The part no Lean model can carry - that the Rust runtime has no further hidden input (hash iteration order, rand::random, addresses, time) - is tested, not proved: each generated configuration (Seeded and Known initialisation, seeded timer, keyboard input) is run twice in independent interpreters and every op's digest must be identical; run 1 is also compared with the model (the seeded memory image is dumped to it).",
        "level_note": BASE_NOTE + "Partial: reproducibility of the implementation is established by the paired runs of this check, a test.",
    },
    "C13": {
        "sub": "c13", "functional": True,
        "status": "partial: loop_unfold (stop order), fuel monotonicity, MCR-off stop, limit tripwire, first-step-always and depth conditions of step_over/step_out, step_out at depth 0, limit_split at loop level, comparator and breakpoint tables; the API-level split statement (observer cleared per call) and step_over/step_out 'first boundary' as one theorem are composed from these, and checked by the split-vs-unbroken oracle",
        "assumptions": ["resumed segments are those paused by the limit, the tripwire or a breakpoint (a resume after a real-trap HALT re-enters the OS halt loop and is compared with the model only)", "the MCR cleared by another thread is modelled as cleared between two loop iterations (harness: from the tripwire closure)"],
        "level_text": "Theorems for all programs, states and fuel (Props/C13.lean): the event loop is by definition MCR check, tripwire, one step, breakpoint check (so runs execute exactly the instructions single steps would, a breakpoint is only tested after an executed instruction, a cleared MCR stops the loop before the next instruction); results are stable under more fuel; run_with_limit never starts an instruction once max were counted; step_over/step_out always execute the first instruction and continue while the depth is above / at-or-above the starting depth; step_out at depth 0 executes nothing; a limit run of a+b passes through the state where the limit-a run paused and continues from there identically (limit_split); comparator/breakpoint semantics. Correspondence: generated programs with loops, calls, traps; random sequences of run_with_limit, step_in, step_over, step_out, run, breakpoint inserts, MCR clears; every call's state/instruction count/hit flags compared; oracle: chopped run equals unbroken run.",
        "level_note": BASE_NOTE + "Thread scheduling is not modelled: the MCR flag changes only between iterations.",
    },
    "C10": {
        "sub": "c10", "functional": True,
        "status": "partial: gate, boundary-only, arbitration, full entry specification, RTI specification and rti_undoes_entry are theorems for all states (stack/vector in plain memory, non-strict); transparency of whole runs with register-restoring handlers is composed from these (+C09) and checked by the interrupted-vs-uninterrupted oracle, not yet one theorem",
        "assumptions": ["supervisor stack words and the vector entry lie below the I/O page (otherwise the pushes are MMIO writes)", "handlers save and restore what they use and return with RTI (the property's contract)"],
        "level_text": "Theorems (Props/C10.lean): an interrupt is taken iff the poll's winner is vectored with priority above the PSR's, and then the step is exactly the supervisor entry (no fetch): interrupts happen only at instruction boundaries; the poll's winner is at least as urgent as every request raised in that poll (external above vectored); entry from any state: privileged, CC=Z, priority set (kept for traps), old PSR at SSP-1 and old PC at SSP-2, R6=SSP-2, PC=M[vector], user R6 stored in the saved SP when coming from user mode, one frame, no other cell/register/device changed; RTI pops PC and PSR, R6+2, swaps back for a user PSR, pops a frame; RTI executed on an entered state restores PC, PSR (CC, privilege, priority), R6, saved SP, all registers, frame depth and all memory but the two pushed words. Correspondence: programs with scripted interrupt devices (competing priorities, nesting), seeded timer, keyboard interrupts, three handler kinds; first 10-50 boundaries stepped and compared, final state compared with the model and with the uninterrupted implementation run.",
        "level_note": BASE_NOTE,
    },
    "C11": {
        "sub": "c11", "functional": True,
        "status": "partial: the routine listings of the regenerated OS image are proved to be the known-good routines (vectors x20-x25, default trap/interrupt handlers, device pointers, prompt string); TRAP entry / RTI restore everything (C10); the Hoare-style contract of each listing is not yet a theorem and is evaluated on the implementation and compared with the model for every case",
        "assumptions": ["keyboard/display locks free (C33 covers contention)", "supervisor stack in plain memory"],
        "level_text": "Theorems re-checked against /repo's current os.asm on every run (the OS image module is regenerated by the translator): each of the trap vectors x20-x25 points at code whose decoded listing is exactly the intended routine (GETC poll-KBSR/load-KBDR/RTI; OUT push/poll-DSR/pop/store-DDR/RTI; PUTS save, loop{load, stop at zero word, OUT, advance}, restore, RTI; IN prompt+GETC+OUT; PUTSP low byte then high byte via eight shift rounds, stop at first zero byte; HALT clears MCR in a loop), device pointers resolve to KBSR/KBDR/DSR/DDR/MCR, default vectors print their message; TRAP entry and RTI restore PC, PSR/CC, privilege and stack pointers (C10.rti_undoes_entry). Correspondence + contract oracle: every trap invoked from user code with random strings/registers/CC/keyboard queues, stepped and compared with the model; the contract (bytes emitted, input consumed, R0, all other registers, PSR, return address) evaluated on the implementation.",
        "level_note": BASE_NOTE + "Partial: semantic contracts of the listings are tested (oracle) rather than proved so far.",
    },
    "C12": {
        "sub": "c12", "functional": True,
        "status": "partial: lockstep, other_vectors_same, virtual_breaks, real_trap_vectoring (C08) and the exception-handler listings with their exact messages are theorems; the whole-program statement composes them with C11's contracts and is checked by the paired-run oracle",
        "assumptions": ["user-mode programs; OS image loaded (true after Simulator::new)"],
        "level_text": "Theorems (Props/C12.lean, C08): the real-traps flag is consulted only for vectors x25/x100/x101/x102 and in the step wrapper: a step whose inner part succeeds is identical under both settings; entries through any other vector ignore the flag; under virtual traps HALT/exceptions stop with the break leaving memory/registers untouched and prefetch_pc at the faulting instruction; under real traps they become supervisor entries at the OS vectors, which (on the regenerated image) point at handlers that PUTS exactly the message of that exception and then HALT. Correspondence + oracle: programs using every I/O trap and programs faulting in each way run under both settings, compared with the model and pairwise (same display, R0-R5, user memory; OS message + halt for faults).",
        "level_note": BASE_NOTE,
    },
    "C33": {
        "sub": "c33", "functional": True, "known_on_mismatch": False,
        "status": "partial + recorded finding F19: exactly-once holds when no lock is held at a KBDR read / DDR store (device-level theorems); the full property is false of the current code (theorems kbdr_denied_stale / ddr_denied_lost, reproduced on the implementation and printed as KNOWN-FINDING)",
        "assumptions": ["a lock can change state only between two instructions of the simulator thread (what try_write observes)"],
        "level_text": "Theorems at device / memory-access level for all states (Props/C33.lean): with the lock free a KBDR read consumes exactly the front byte and returns it, a DDR store appends exactly one byte; with the lock held at a KBSR/DSR poll the device reads not-ready and nothing changes (the OS routines poll again); with the lock held at the KBDR read or DDR store the read answers nothing (the load returns the stale mirror word, byte stays queued) and the store is refused (byte lost) - the mechanism of finding F19. Correspondence: echo programs under exhaustive 16-bit denial patterns over the first device accesses and random per-step patterns, the harness holding the real RwLock write guards; every step compared with the model; oracle: display = input exactly once in order; failures with a denied KBDR read/DDR store are the known finding, any other failure is a violation.",
        "level_note": BASE_NOTE + "Real thread interleavings are represented by the per-step lock oracle only. F19 is listed in known_findings.json (status open).",
    },
    "C25": {
        "sub": "c25", "functional": True,
        "status": "partial: line count, newline-table invariants, position pair within the text and past the end (fix F15), existence and containment of line spans are theorems; the trimmed-text equality of line spans is checked by the oracle on every generated string",
        "assumptions": ["F15 repaired in /repo (fix: commit e0f1484)", "char::is_whitespace = the 25 White_Space code points listed in Model/Source.lean"],
        "level_text": "Theorems for every text (Props/C25.lean, positions = UTF-8 byte offsets): count_lines = number of newlines + 1; the newline table is strictly increasing and bounded by the length; for an index within the text get_pos_pair returns (l, c) with lineStart l + c = index and l = number of newlines strictly before the index; for an index past the end the line is the last line and the column is measured from its start; line_span is defined exactly for lines below the count and lies within the raw line. Correspondence + oracle: all strings up to length 4 (thorough 6) over {a, space, LF, CR} and random strings over an alphabet rich in LF/CRLF/CR/tab/NBSP/U+2028/multi-byte letters; every line index up to lines+2 and every byte index up to len+10 compared with the model and with answers recomputed from split/trim.",
        "level_note": BASE_NOTE,
    },
    "C03": {
        "sub": "c03", "functional": True,
        "status": "partial: layout-insensitivity of the pieces (keyword case, x/X and R/r prefixes, blanks shift spans only, comments dropped, comment token ends at the line end, numeric tokens denote their value via C05, all spans inside the text) are theorems; 'render(statements) parses to statements' for whole programs is exercised by the correspondence (implementation = model = generated statements), not proved; the consequence for assembled images is covered by the assembler properties' checks",
        "assumptions": ["Unicode classes of the lexer (\\w, \\d) and char::to_uppercase are the tables regenerated into Gen/UniTables.lean from the implementation on every run", "F1/F2 repaired in /repo (fix: commit ce55f21)"],
        "level_text": "Theorems for every input (Props/C03.lean): keyword recognition depends only on the upper-cased spelling; hex and register prefixes are case-irrelevant; lexing from a shifted offset yields the same tokens shifted (so leading blanks/tabs only move spans); parse_ast runs on the token list with comments filtered out; a comment token stops before the line end; error spans lie inside the text. Correspondence + oracle: every string of length <= 3 (thorough 4) over a 40-symbol alphabet and random token soups token-by-token; 3,000 (thorough 50,000) generated statement lists covering every opcode/alias/directive rendered in two random layouts each, parsed by implementation and model (values and byte spans compared) and compared with the generated statements.",
        "level_note": BASE_NOTE,
    },
    "C04": {
        "sub": "c04", "functional": True,
        "status": "proved for the model: every error of parse_ast (lexical or syntactic) has a span a..b with a <= b <= len(text); the lexer makes progress on every token; Offset::new width panics unreachable. 'never panics' on the Rust side (slicing, expect, unwrap) is not a statement about the total model: it is decided by the correspondence run under catch_unwind",
        "assumptions": ["F1/F2 repaired in /repo (fix: commit ce55f21)", "Unicode tables regenerated from the implementation (Gen/UniTables.lean)"],
        "level_text": "Theorems for every text (Props/C04.lean, Lemmas/ParseSpan.lean): all tokens and the lexer's error lie inside the text; the parser never changes its token vector and every error it returns carries the cursor span of some token (or 0..0), hence parse_ast's error span satisfies a <= b <= len; lexOne consumes >= 1 character; the Offset widths used never reach the width assertions. Correspondence + oracle: 16,000 (thorough 400,000) inputs in three streams (token soups incl. lone CR/NUL/non-ASCII, mutated generated programs, arbitrary Unicode scalars from all planes) + 44 targeted literals (backslash before EOL/EOF, multi-byte after backslash, 65534/65535/65536-byte and 70000-char literals, huge numbers); parse_ast under catch_unwind; result, message and span compared with the model; no panic, span on char boundaries within the input.",
        "level_note": BASE_NOTE,
    },
    "C05": {
        "sub": "c05", "functional": True,
        "status": "proved: for every digit string (any length, leading zeros) the decimal, hex and register validators accept exactly the in-range values and return them, lifted to lexOne for decimal/-decimal/register tokens standing alone; operand conversion accepts exactly the values that fit, for every width 1..16 and both token kinds. partial: the hex and #-forms are lifted to lexOne by dispatch lemmas (Lemmas/LexTok.lean) but the per-context statements for .fill/.blkw non-zero are checked by the exhaustive oracle, not restated as theorems",
        "assumptions": [],
        "level_text": "Theorems (Props/C05.lean, Lemmas/LexNum.lean): from_str_radix on a digit string = the written value iff within [lo, hi] (positive and negative accumulation, overflow order as in Rust); lex_unsigned_dec/lex_signed_dec/lex_unsigned_hex/lex_signed_hex/lex_reg on every digit string; lexOne on digits/-digits/R+digits followed by a non-word character; Offset conversion of unsigned/signed tokens into signed/unsigned N-bit fields accepts iff the value fits (N = 1..16). Correspondence + oracle: quick = 212 integers (stride 997 + all boundaries +-3) x 6-10 notations x (bare token + 9 operand contexts); thorough = every integer in [-70000, 140000]; registers R/r 0..299 with leading zeros; 40-50 digit literals.",
        "level_note": BASE_NOTE,
    },
    "C36": {
        "sub": "c36", "functional": True,
        "status": "partial: for every operand kind the printed text is proved to lex back to a token that converts to the same operand (string literals over the allowed characters for every string; signed/unsigned offsets for every width and value; registers; mnemonics incl. BR variants); the composition over a whole statement line is exercised by the correspondence (parse -> print -> parse on implementation and model), not proved",
        "assumptions": ["char::escape_debug outside ASCII = Gen/UniTables.lean escRanges (regenerated); only ASCII is inside the property's scope"],
        "level_text": "Theorems (Props/C36.lean, Lemmas/PrintLex.lean): scanStr (escape s) = s for every string over printable ASCII/tab/LF/CR/NUL, hence lexOne of the printed literal = String s; valOf (decimal digits of n) = n; '#'+decimal of an unsigned field value lexes to Unsigned v and converts back to v; '#'+signed decimal of a signed field value lexes to a token that converts back to v (N = 1..16); R0-R7; all 32 mnemonics and the 8 BR/NOP spellings by kernel evaluation. Correspondence + oracle: 2,500 (thorough 40,000) generated programs parsed, printed (Display compared with the model's printer byte for byte) and reparsed, statements compared up to spans; 1,250 (thorough 20,000) statements with Unicode labels and literals (oracle applied only to literals inside the property's scope).",
        "level_note": BASE_NOTE,
    },
}
