#!/bin/bash
# usage: regress_mutants.sh [log]   — re-runs every seeded change against its property's quick check; prints CAUGHT/MISSED per id
log="${1:-/tmp/regress.log}"; : > "$log"
cd /verif
for d in seeded/*/; do
  id=$(basename "$d")
  prop=$(python3 -c "import json,sys; print(json.load(open('$d/meta.json')).get('property',''))" 2>/dev/null)
  [ -z "$prop" ] && prop=${id%%-*}
  n=$(tools/try_mutant.sh /verif/$d/patch.diff $prop 2>&1 | grep -c "^VIOLATION")
  if [ "$n" -gt 0 ]; then echo "$id $prop CAUGHT" >> "$log"; else echo "$id $prop MISSED" >> "$log"; fi
done
rm -f replays/*-1-corr.json replays/*-1-oracle*.json
git -C /repo status --short | head -3 >> "$log"
echo DONE >> "$log"
