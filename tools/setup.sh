#!/bin/sh
# MANIFEST.setup_cmd: build everything from files on disk only (offline).
set -e
cd "$(dirname "$0")/.."
export CARGO_NET_OFFLINE=true
python3 tools/gen_os_image.py 2>/dev/null || true
python3 tools/gen_uni_tables.py 2>/dev/null || true
(cd lean && lake build)
cp /repo/Cargo.lock harness/Cargo.lock
(cd harness && cargo build --offline)
