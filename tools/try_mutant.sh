#!/bin/bash
# usage: try_mutant.sh <patch.diff> <prop> [<prop> ...]   — applies the patch to /repo, runs the checks, restores /repo.
set -u
patch="$1"; shift
cd /repo || exit 2
if ! git diff --quiet; then echo "/repo has local modifications; refusing"; exit 2; fi
git apply "$patch" || { echo "patch does not apply"; exit 2; }
cd /verif
for p in "$@"; do
  echo "== $p"; ./check "$p" --tier quick 2>&1 | tail -4
done
git -C /repo checkout -- .
git -C /repo status --short | head -3
